"""Coverage-guided campaign: atheris (libFuzzer) drives a Hypothesis strategy through `fuzz_one_input`, so the bytes
libFuzzer mutates are the choice sequence of the SAME strategy the property check uses, with coverage feedback from the
instrumented `proxy` package and the oracle inside the target.

usage: python -m vf.fuzz.target <Cxx> <target-name> <out-json> [libFuzzer flags...]     (run as a subprocess of a shard)
"""
import os
import sys
import json


def main() -> None:
    prop, name, out_json = sys.argv[1], sys.argv[2], sys.argv[3]
    fuzz_argv = [sys.argv[0]] + sys.argv[4:]
    import atheris
    with atheris.instrument_imports(include=['proxy']):
        import proxy  # noqa: F401
        import proxy.http.parser  # noqa: F401
        import proxy.http.websocket  # noqa: F401
    import importlib
    from hypothesis import given, settings, HealthCheck
    from vf.core import jsonio
    from vf.core.runner import Acc
    mod = importlib.import_module('vf.props.%s' % prop.lower())
    strategy, check = mod.fuzz_targets()[name]
    acc = Acc(mod.ID)
    stats = {'execs': 0}

    @settings(database=None, deadline=None, suppress_health_check=list(HealthCheck))
    @given(strategy)
    def test(case):     # type: ignore[no-untyped-def]
        stats['execs'] += 1
        for (clause, features, observed, expected) in check(case):
            if acc.classify(clause, features) is None:
                with open(out_json, 'w') as f:
                    f.write(jsonio.dumps({'case': case, 'clause': clause, 'features': features, 'observed': observed, 'expected': expected}))
                raise AssertionError('%s %s' % (clause, features))

    atheris.Setup(fuzz_argv, test.hypothesis.fuzz_one_input)
    atheris.Fuzz()


if __name__ == '__main__':
    main()
