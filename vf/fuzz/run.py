"""Run one atheris campaign as a subprocess of a shard and fold its outcome into the shard's accounting."""
import os
import re
import sys
import json
import shutil
import tempfile
import subprocess
from typing import Any, List

from vf.core import jsonio


def campaign(mod: Any, name: str, acc: Any, *, runs: int, seed: int, seeds: List[bytes] = ()) -> None:     # type: ignore[assignment]
    tmp = tempfile.mkdtemp(prefix='vf-fuzz-')
    corpus = os.path.join(tmp, 'corpus')
    os.makedirs(corpus)
    for i, s in enumerate(seeds):
        with open(os.path.join(corpus, 'seed%d' % i), 'wb') as f:
            f.write(s)
    out_json = os.path.join(tmp, 'violation.json')
    env = dict(os.environ)
    cmd = [sys.executable, '-m', 'vf.fuzz.target', mod.ID, name, out_json, corpus, '-runs=%d' % runs, '-seed=%d' % (seed % (2 ** 31) or 1),
           '-print_final_stats=1', '-artifact_prefix=%s/' % tmp, '-max_len=4096', '-timeout=120', '-rss_limit_mb=4096']
    try:
        r = subprocess.run(cmd, env=env, capture_output=True, text=True, timeout=3 * 3600)
    except subprocess.TimeoutExpired:
        acc.budget_hit = True
        acc.notes.append('atheris campaign %s hit its wall-clock budget (inconclusive)' % name)
        shutil.rmtree(tmp, ignore_errors=True)
        return
    m = re.search(r'stat::number_of_executed_units:\s*(\d+)', r.stderr)
    execs = int(m.group(1)) if m else 0
    cov = re.findall(r'cov: (\d+)', r.stderr)
    acc.count(execs)
    acc.label('atheris:%s' % name)
    acc.sizes['atheris_execs_%s' % name] = execs
    if cov:
        acc.sizes['atheris_cov_%s' % name] = int(cov[-1])
    if os.path.exists(out_json):
        v = jsonio.loads(open(out_json).read())
        acc.fail(v['case'], v['clause'], v['features'], v.get('observed'), v.get('expected'))
    elif r.returncode != 0 and 'ERROR: libFuzzer' in r.stderr and 'deadly signal' in r.stderr:
        raise RuntimeError('atheris campaign %s crashed:\n%s' % (name, r.stderr[-2000:]))
    elif execs == 0:
        raise RuntimeError('atheris campaign %s did not run:\n%s' % (name, (r.stderr or r.stdout)[-2000:]))
    shutil.rmtree(tmp, ignore_errors=True)
