"""C10 - every connection's resources are released exactly once, however it ends.

Connection scripts in every role (forward HTTP, tunnel, web route, static file, reverse proxy, bad request, 404,
auth failed), each run to completion and - enumerated - with every single fault: (k-th proxy socket call on the
connection's sockets) x errno, (k-th peer action) x (client close / half-close / reset, origin close / reset),
connect refused / timed out / unresolvable / unreachable, idle timeout through the virtual clock; singly and
repeated on the same executor; in the local executor, the remote executor (descriptor passed over a real pipe) and
the threaded handler.
Oracle, evaluated after the connection is over and the harness has closed its own ends (while the executor is
still running):
  * every proxy-side socket created for the connection is closed (explicitly, or finalised - recorded as a label);
  * executor.works, registered_events_by_work_ids and unfinished are empty and the selector map holds nothing but
    the work-queue descriptor;
  * the number of open descriptors of the process is back to its value before the connection, after every
    repetition.
"""
import gc
import os
from typing import Any, Dict, List, Optional, Tuple

from hypothesis import strategies as st

from vf.core import hyp
from vf.harness import k as K
from vf.harness.peers import ReactiveOrigin, ReactiveClient
from vf.props import c05

ID = 'C10'
LEVEL = 'fault_enumeration'
ROLES = ['forward', 'forward-pp-pooled', 'tunnel-pp', 'forward-pooled', 'tunnel-pooled', 'tunnel', 'web', 'static', 'reverse', 'reverse-keepalive', 'nonutf8-target', 'close-hook-raises', 'bad-request', 'not-found', 'auth-failed', 'tls-handshake-fails']
MODES = ['local', 'remote', 'threaded']
RULE = ('enumeration: for each (role, mode) - roles incl. forward/tunnel behind --enable-proxy-protocol opening with the address-less PROXY UNKNOWN line - a fault-free dry run counts the proxy socket calls and the peer actions of the '
        'connection; every (call ordinal x errno), (selector register/modify ordinal x {ENOMEM, ENOSPC}), (action index x peer fault), '
        'connect fault and the idle-timeout ending is run; '
        'plus repetition runs (25 / 200 consecutive connections with mixed endings on one executor) and Hypothesis-drawn '
        'fault/schedule combinations. Non-trivial: the abort fired while an upstream socket existed or output was pending; '
        'distinct by case hash.')
EXPLANATION = 'exhaustive_subspaces names the (role, mode) scenarios whose single-fault grids were enumerated completely'
ASSUMPTIONS = ['/proc/self/fd lists the open descriptors of the check process', 'AF_UNIX pairs stand in for TCP']

_F: Dict[Any, Any] = {}


def tls_files() -> Tuple[str, str]:
    """A throw-away self-signed key/cert pair for the end-to-end-encryption listener (openssl, once per process)."""
    key = ('tls', os.getpid())
    if key not in _F:
        import subprocess
        import tempfile
        d = tempfile.mkdtemp(prefix='vf-c10-tls-')
        subprocess.run(['openssl', 'req', '-x509', '-newkey', 'ec', '-pkeyopt', 'ec_paramgen_curve:prime256v1', '-nodes', '-days', '2',
                        '-subj', '/CN=localhost', '-keyout', os.path.join(d, 'key.pem'), '-out', os.path.join(d, 'cert.pem')],
                       check=True, capture_output=True, timeout=600)
        _F[key] = (os.path.join(d, 'key.pem'), os.path.join(d, 'cert.pem'), d)
    return _F[key][0], _F[key][1]


def flags_for(mode: str, auth: bool, tls: bool = False, pool: bool = False, pp: bool = False) -> Any:
    key = (mode, auth, tls, pool, pp, os.getpid())
    if key not in _F:
        from vf.props import c04, c07
        c05.flags()       # makes sure the plugin classes exist
        argv = {'local': ['--threadless'], 'remote': ['--threadless', '--local-executor', '0'], 'threaded': ['--threaded']}[mode]
        argv += ['--enable-web-server', '--enable-static-server', '--static-server-dir', c07.static_dir(), '--enable-reverse-proxy',
                 '--timeout', '5']
        opts: Dict[str, Any] = {'plugins': [c07.route_plugin(), c04._reverse_plugin(), c05._F['explode']]}
        if auth:
            opts['basic_auth'] = 'user:pass'
        if pool:
            argv += ['--enable-conn-pool']      # upstream connections are acquired from / released to the worker's pool
        if pp:
            argv += ['--enable-proxy-protocol']      # every connection then opens with a HAProxy v1 line
        if tls:
            k_, c_ = tls_files()
            argv += ['--key-file', k_, '--cert-file', c_]
        _F[key] = K.make_flags(argv, **opts)
    return _F[key]


def conversation(role: str, i: int = 0) -> Dict[str, Any]:
    if role in ('forward', 'tunnel', 'web', 'reverse'):
        return c05.conversation(role, 'canary')
    if role.endswith('-pooled'):
        return conversation(role[:-7], i)
    if role.endswith('-pp'):
        # behind --enable-proxy-protocol: the connection opens with the address-less form of the v1 line
        conv = dict(c05.conversation(role[:-3], 'canary'))
        conv['requests'] = [b'PROXY UNKNOWN\r\n' + conv['requests'][0]] + list(conv['requests'][1:])
        return conv
    if role == 'reverse-keepalive':
        one = c05.conversation('reverse', 'canary')['requests'][0]
        return {'requests': [one, one.replace(b'/ra/canary', b'/rb/second'), one], 'tunnel': None}
    if role == 'tls-handshake-fails':
        # the listener speaks TLS (--key-file/--cert-file); this client sends plain HTTP, so setting the work up fails
        return {'requests': [b'GET / HTTP/1.1\r\nHost: localhost\r\n\r\n'], 'tunnel': None, 'send_before_accept': True}
    if role == 'close-hook-raises':
        # a user plugin raises from its on_upstream_connection_close hook: Work.shutdown() raises
        return c05.conversation('forward', 'canary', explode='on_upstream_connection_close')
    if role == 'nonutf8-target':
        # served like any other request, but the access log written at teardown cannot decode it: shutdown() raises
        return {'requests': [b'GET http://canary.test/\xff\xfe?q=\xc3\x28 HTTP/1.1\r\nHost: canary.test\r\n\r\n'], 'tunnel': None}
    if role == 'static':
        from vf.props import c07
        path, _ = c07.static_file(3000, 1)
        return {'requests': [b'GET ' + path.encode() + b' HTTP/1.1\r\nHost: localhost\r\n\r\n'], 'tunnel': None}
    if role == 'bad-request':
        return {'requests': [b'NONSENSE\r\n\r\n'], 'tunnel': None}
    if role == 'not-found':
        return {'requests': [b'GET /no-such-thing HTTP/1.1\r\nHost: localhost\r\n\r\n'], 'tunnel': None}
    if role == 'auth-failed':
        return {'requests': [b'GET http://canary.test/x HTTP/1.1\r\nHost: canary.test\r\n\r\n'], 'tunnel': None}
    raise ValueError(role)


def fd_count() -> int:
    return len(os.listdir('/proc/self/fd'))


def run_case(c: Dict[str, Any], dry: bool = False) -> Dict[str, Any]:
    mode = c['mode']
    roles = c['roles']      # one or many consecutive connections
    flags = flags_for(mode, 'auth-failed' in roles, 'tls-handshake-fails' in roles, any(r.endswith('-pooled') for r in roles), any('-pp' in r for r in roles))
    K.CLOCK.reset()
    gc.collect()
    base_fds = fd_count()
    w = K.World(flags, max_iters=40000, settle=6, weak_ksocks=True)
    w.reaper_period = 20
    fault = None if dry else c.get('fault')
    state: Dict[str, Any] = {'calls': 0, 'sel_calls': 0, 'actions': 0, 'fired': False, 'upstream_existed': False, 'snapshots': [], 'conn': 0}
    origins: List[K.Peer] = []

    def fac(world: K.World, addr: Tuple[str, int], idx: int) -> Tuple[K.Peer, Optional[Dict[str, Any]]]:
        name = 'origin#%d' % idx
        o: K.Peer = c05.echo_origin(name) if addr[1] == 443 else ReactiveOrigin(name)
        origins.append(o)
        if name not in world.order:
            world.order.append(name)
        return o, None
    w.origin_factory = fac

    def gfault(ks: K.KSock, op: str) -> Optional[str]:
        k_ = state['calls']
        state['calls'] += 1
        if fault and fault['type'] == 'errno' and fault['k'] == k_ and state['conn'] == fault.get('conn', 0):
            state['fired'] = True
            state['upstream_existed'] = bool(origins)
            return fault['errno']
        return None
    w.global_fault_fn = gfault

    def sfault(op: str, fd: int) -> Optional[str]:
        # selector-level faults: the k-th register()/modify() of a descriptor of this connection fails like a failing epoll_ctl
        k_ = state['sel_calls']
        state['sel_calls'] += 1
        if fault and fault['type'] == 'selector' and fault['k'] == k_ and state['conn'] == fault.get('conn', 0):
            state['fired'] = True
            state['upstream_existed'] = bool(origins)
            return fault['errno']
        return None
    if mode != 'threaded':
        w.selector_fault_fn = sfault
    if fault and fault['type'] == 'connect':
        w.connect_plan = {0: fault['what']}
        state['fired'] = True
    clients: List[K.Peer] = []

    def open_next(world: K.World) -> None:
        i = len(clients)
        conv = conversation(roles[i], i)
        p = c05.make_client('client%d' % i, conv)
        p.send_before_accept = bool(conv.get('send_before_accept'))     # type: ignore[attr-defined]
        if p.send_before_accept and isinstance(p, ReactiveClient):     # type: ignore[attr-defined]
            p.out += conv['requests'][0]
        clients.append(p)
        state['conn'] = i
        if fault and fault['type'] == 'peer' and fault.get('conn', 0) == i:
            orig = p.act

            def act() -> None:
                k_ = state['actions']
                state['actions'] += 1
                if fault['k'] == k_:
                    state['fired'] = True
                    state['upstream_existed'] = bool(origins)
                    tgt = origins[-1] if (fault['what'].startswith('origin') and origins) else p
                    if fault['what'].endswith('reset'):
                        tgt.do_reset()
                    elif fault['what'].endswith('shut'):
                        tgt.do_shut()
                    else:
                        tgt.do_close()
                    return
                orig()
            p.act = act     # type: ignore[method-assign]
        elif not fault or fault['type'] != 'peer':
            orig2 = p.act

            def act2() -> None:
                state['actions'] += 1
                orig2()
            p.act = act2     # type: ignore[method-assign]
        world.add_client(p)

    def idle(world: K.World) -> None:
        # nothing but the reaper can end an established, silent connection
        K.CLOCK.offset += 3600.0

    def close_ours(world: K.World) -> None:
        for p in clients[-1:]:
            if p.sock is not None and not p.closed:
                p.do_close()

    def close_origins(world: K.World) -> None:
        for o in origins:
            if o.sock is not None and not o.closed:
                o.do_close()

    def inspect(world: K.World) -> None:
        gc.collect()
        ex = world.executor
        snap: Dict[str, Any] = {'fds': fd_count()}
        open_socks = []
        how = {'explicit': 0, 'finalised': 0}
        for name, ref in world.ksock_refs:
            obj = ref()
            if obj is not None and obj.fileno() != -1:
                open_socks.append(name)
            else:
                how['explicit' if name in world.explicitly_closed else 'finalised'] += 1
        snap['open_socks'] = open_socks
        snap['how'] = how
        if ex is not None:
            snap['works'] = len(ex.works)
            snap['registered'] = {k_: dict(v) for k_, v in ex.registered_events_by_work_ids.items()}
            snap['unfinished'] = len(ex.unfinished)
            pool = getattr(ex, '_upstream_conn_pool', None)
            snap['pool'] = None if pool is None else {'connections': len(pool.connections), 'pooled': sum(len(v) for v in pool.pools.values())}
            wq = ex.work_queue_fileno()
            snap['selector'] = sorted(fd for fd in ex.selector.get_map() if fd != wq) if ex.selector is not None else None
        state['snapshots'].append(snap)

    epi = []
    for i in range(len(roles)):
        epi.append(open_next)
        if fault and fault['type'] == 'idle' and fault.get('conn', 0) == i:
            epi.append(idle)
        epi += [close_ours, close_origins, inspect]
    if mode == 'threaded':
        # one handler per connection, as the acceptor starts them; inspection after run() returned
        for i in range(len(roles)):
            w2 = w if i == 0 else K.World(flags, max_iters=40000, settle=6, weak_ksocks=True)
            if i:
                w2.origin_factory, w2.global_fault_fn, w2.connect_plan = fac, gfault, w.connect_plan
                w.ksock_refs = w2.ksock_refs = w.ksock_refs
            open_next(w2)
            w2.order = [clients[-1].name]
            seq = [close_ours, close_origins]
            if fault and fault['type'] == 'idle' and fault.get('conn', 0) == i:
                seq = [idle] + seq
            w2.at_quiescence = seq
            w2.schedule = list(c.get('schedule') or [])
            K.run_mode(w2, 'threaded', clients[-1].name)
            close_ours(w2)
            close_origins(w2)
            w2.executor = None
            inspect(w2)
            if w2 is not w:
                w.exceptions += w2.exceptions
                w2.teardown()
    else:
        w.order = []
        w.at_quiescence = epi
        w.schedule = []
        K.run_mode(w, mode)
    return {'world': w, 'state': state, 'base_fds': base_fds, 'clients': clients, 'origins': origins}


def evaluate(c: Dict[str, Any]) -> Tuple[List[Any], Dict[str, Any]]:
    r = run_case(c)
    w: K.World = r['world']
    stt = r['state']
    f = c.get('fault') or {}
    feat = {'mode': c['mode'], 'role': c['roles'][f.get('conn', 0)] if len(c['roles']) == 1 or f else 'mixed',
            'fault': f.get('type', 'none'), 'what': f.get('errno') or f.get('what')}
    info = {'fired': stt['fired'], 'upstream': stt['upstream_existed'], 'calls': stt['calls'], 'actions': stt['actions'], 'how': {}}
    out: List[Any] = []
    try:
        if w.budget_exhausted:
            info['inconclusive'] = True
            return out, info
        if c['mode'] != 'threaded' and w.worker_died:
            exc = (w.exceptions or [('', 'loop-stopped')])[0][1]
            return [('worker-died', dict(feat, exc=exc.split(':')[0]), {'exceptions': w.exceptions[:2], 'k': f.get('k')}, None)], info
        snaps = stt['snapshots']
        if len(snaps) != len(c['roles']):
            return [('connection-never-over', feat, {'inspections': len(snaps)}, {'connections': len(c['roles'])})], info
        for i, s in enumerate(snaps):
            info['how'] = s['how']
            if s['open_socks']:
                out.append(('socket-left-open', feat, {'after_connection': i, 'sockets': s['open_socks']}, []))
            if c['mode'] != 'threaded':
                if s.get('pool') and (s['pool']['connections'] or s['pool']['pooled']):
                    # nothing in proxy.py retains a pooled connection for reuse: after the connection is over the pool is empty again
                    out.append(('connection-pool-not-restored', feat, {'after_connection': i, 'pool': s['pool']}, 'empty'))
                if s['works'] or s['registered'] or s['unfinished']:
                    out.append(('executor-bookkeeping-not-restored', feat, {'after_connection': i, 'works': s['works'],
                                                                          'registered': s['registered'], 'unfinished': s['unfinished']}, 'empty'))
                if s['selector']:
                    out.append(('selector-entry-left', feat, {'after_connection': i, 'fds': s['selector']}, []))
            if out:
                break
        fds = [s['fds'] for s in snaps]
        want = r['base_fds'] + (fds[0] - r['base_fds'] if False else 0)
        # the executor's own descriptors (epoll, event-loop self-pipe, work pipe) exist while it runs: compare every
        # inspection with the first one taken on this executor, and the first with the very small set an executor needs
        if not out and any(x != fds[0] for x in fds):
            out.append(('descriptors-grow-over-repetitions', feat, fds[:12], [fds[0]] * min(len(fds), 12)))
        ex_own = 0 if c['mode'] == 'threaded' else (5 if c['mode'] == 'local' else 7)
        if not out and fds[0] - r['base_fds'] > ex_own:
            out.append(('descriptor-leak', feat, {'before': r['base_fds'], 'after_first_connection': fds[0], 'executor_own_max': ex_own}, None))
        return out, info
    finally:
        w.teardown()
        gc.collect()


def replay(case: Dict[str, Any]) -> List[Dict[str, Any]]:
    vs, _ = evaluate(case)
    return [{'property': ID, 'clause': cl, 'features': ft, 'case': case, 'observed': ob, 'expected': ex} for (cl, ft, ob, ex) in vs]


def shards(tier: str) -> List[Dict[str, Any]]:
    q = tier == 'quick'
    out = []
    for mode in MODES:
        for role in ROLES:
            if q and mode != 'local' and role in ('not-found', 'bad-request', 'static'):
                continue
            if mode == 'threaded' and role.endswith('-pooled'):
                continue      # the threaded driver has no pool (Threaded work is created with upstream_conn_pool=None)
            if mode == 'threaded' and role == 'close-hook-raises':
                # a user plugin raising from a close hook is not one of the endings C10 lists (it is C05's business); in
                # the executors the work is dropped and its sockets are finalised, which is what this role pins; in the
                # threaded driver the harness keeps the handler object alive, so nothing could be concluded
                continue
            out.append({'name': 'enum-%s-%s' % (mode, role), 'kind': 'enum', 'mode': mode, 'role': role})
    for mode in MODES:
        out.append({'name': 'repeat-%s' % mode, 'kind': 'repeat', 'mode': mode, 'n': 25 if q else 200})
        out.append({'name': 'repeat-failed-setup-%s' % mode, 'kind': 'repeat', 'mode': mode, 'n': 8 if q else 60, 'only': 'tls-handshake-fails'})
        if mode != 'threaded':
            out.append({'name': 'repeat-proxy-protocol-%s' % mode, 'kind': 'repeat', 'mode': mode, 'n': 8 if q else 60, 'only': 'forward-pp-pooled'})
    for i in range(3 if q else 9):
        out.append({'name': 'random-%d' % i, 'kind': 'random', 'examples': 250 if q else 5000})
    return out


def run_shard(spec: Dict[str, Any], seed: int, acc: Any) -> None:
    from vf.props import c07
    try:
        if spec['kind'] == 'enum':
            base = {'mode': spec['mode'], 'roles': [spec['role']]}
            dry = run_case(base, dry=True)
            ncalls, nacts, nsel = dry['state']['calls'], dry['state']['actions'], dry['state']['sel_calls']
            dry['world'].teardown()
            cases: List[Dict[str, Any]] = [dict(base)]
            if spec['mode'] != 'remote':
                # remote executor: the client side is a plain descriptor (no interposition); upstream calls still are
                pass
            for k_ in range(ncalls):
                for e in c05.ERRNOS:
                    cases.append(dict(base, fault={'type': 'errno', 'k': k_, 'errno': e}))
            for k_ in range(nacts):
                for pf in c05.PEER_FAULTS:
                    cases.append(dict(base, fault={'type': 'peer', 'k': k_, 'what': pf}))
            for k_ in range(nsel):
                for e in ('ENOMEM', 'ENOSPC'):
                    cases.append(dict(base, fault={'type': 'selector', 'k': k_, 'errno': e}))
            if spec['role'] in ('forward', 'forward-pp-pooled', 'tunnel-pp', 'forward-pooled', 'tunnel-pooled', 'tunnel', 'reverse', 'reverse-keepalive', 'nonutf8-target', 'close-hook-raises'):
                for cf in c05.CONNECT_FAULTS:
                    cases.append(dict(base, fault={'type': 'connect', 'what': cf}))
            cases.append(dict(base, fault={'type': 'idle'}))
            for c in cases:
                vs, info = evaluate(c)
                f = c.get('fault') or {}
                acc.case(c, bool(info['fired'] and info['upstream']) or f.get('type') == 'idle',
                         labels=('mode:' + c['mode'], 'fault:' + f.get('type', 'none'), 'fired' if info['fired'] else 'not-fired',
                                 'closed-explicitly:%d' % info['how'].get('explicit', 0), 'closed-by-finalisation:%d' % info['how'].get('finalised', 0)))
                if info.get('inconclusive'):
                    acc.dontcare += 1
                for (cl, ft, ob, ex) in vs:
                    acc.fail(c, cl, ft, ob, ex)
            acc.exhaustive_parts.append('mode=%s role=%s: %d socket calls x %d errnos + %d selector calls x 2 errnos + %d peer actions x %d peer faults + connect faults + idle'
                                        % (spec['mode'], spec['role'], ncalls, len(c05.ERRNOS), nsel, nacts, len(c05.PEER_FAULTS)))
            return
        if spec['kind'] == 'repeat':
            roles = [r for r in ROLES if r not in ('auth-failed', 'tls-handshake-fails') and '-pp' not in r and not (spec['mode'] == 'threaded' and (r == 'close-hook-raises' or r.endswith('-pooled')))]
            seq = [roles[(i * 5 + i // 7) % len(roles)] for i in range(spec['n'])]
            if spec.get('only'):
                seq = [spec['only']] * spec['n']
            c = {'mode': spec['mode'], 'roles': seq}
            vs, info = evaluate(c)
            acc.case(c, True, labels=('repeat:%d' % spec['n'], 'mode:' + spec['mode']))
            acc.size('max_repetitions', spec['n'])
            for (cl, ft, ob, ex) in vs:
                acc.fail(c, cl, ft, ob, ex)
            return

        @st.composite
        def strat(draw: Any) -> Dict[str, Any]:
            n = draw(st.integers(1, 4))
            roles = [draw(st.sampled_from([r for r in ROLES if r not in ('auth-failed', 'close-hook-raises', 'tls-handshake-fails') and '-pp' not in r])) for _ in range(n)]
            ft = draw(st.sampled_from(['errno', 'errno', 'peer', 'connect', 'idle', 'none', 'selector']))
            conn = draw(st.integers(0, n - 1))
            fault: Optional[Dict[str, Any]] = None
            if ft == 'errno':
                fault = {'type': 'errno', 'k': draw(st.integers(0, 30)), 'errno': draw(st.sampled_from(c05.ERRNOS)), 'conn': conn}
            elif ft == 'selector':
                fault = {'type': 'selector', 'k': draw(st.integers(0, 12)), 'errno': draw(st.sampled_from(['ENOMEM', 'ENOSPC'])), 'conn': conn}
            elif ft == 'peer':
                fault = {'type': 'peer', 'k': draw(st.integers(0, 10)), 'what': draw(st.sampled_from(c05.PEER_FAULTS)), 'conn': conn}
            elif ft == 'connect':
                fault = {'type': 'connect', 'what': draw(st.sampled_from(c05.CONNECT_FAULTS))}
            elif ft == 'idle':
                fault = {'type': 'idle', 'conn': conn}
            c = {'mode': draw(st.sampled_from(MODES)), 'roles': roles}
            if c['mode'] == 'threaded':
                c['roles'] = [r[:-7] if r.endswith('-pooled') else r for r in roles]
            if fault:
                c['fault'] = fault
            return c

        def chk(c: Dict[str, Any]) -> List[Any]:
            vs, info = evaluate(c)
            if info.get('inconclusive'):
                acc.dontcare += 1
            acc.case(c, bool(info['fired'] and info['upstream']) or len(c['roles']) > 1, labels=('random', 'mode:' + c['mode']))
            return vs
        hyp.drive(strat(), chk, acc, max_examples=spec['examples'], seed=seed, max_rounds=8)
    finally:
        c07.cleanup_static()
        for k_, v_ in list(_F.items()):
            if isinstance(k_, tuple) and k_[0] == 'tls':
                import shutil
                shutil.rmtree(v_[2], ignore_errors=True)
        _F.clear()
        c05._F.clear()
