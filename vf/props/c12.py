"""C12 - the reverse proxy routes matching requests to a configured upstream, as documented.

Route tables: 1..2 ReverseProxyBasePlugin classes whose routes() read a generated table: static routes
(regex, [1..3 upstream URLs, http/https, with/without explicit port and path]) and dynamic routes whose handle_route
returns a Url or a literal response.  Requests: methods, header sets, bodies, paths matching none / one / several
routes; --rewrite-host-header on/off.
Oracle (model = re.match of every route regex on the request path; ANY matching route is admissible):
  no match   -> one h11-valid 404, then EOF, zero outbound connections
  match      -> either the literal response of a matching dynamic route (no connection), or exactly one connection to
                (host(u), port(u) or 80/443 by scheme) for a URL u of a matching route; the origin then reads the
                same method, headers (names byte-identical, values OWS-trimmed) and body, request path = u's path
                (or '/'), Host = u's authority iff the option is on, else the client's; and the client reads exactly
                the origin's bytes.
  https URLs -> the port derivation is observed at connect time, the connect is then refused (no TLS inside harness K).
"""
import re
import random
from typing import Any, Dict, List, Optional, Tuple

from hypothesis import strategies as st

from vf.core import hyp, jsonio
from vf.gens import http as G
from vf.harness import k as K
from vf.harness.peers import ReactiveOrigin
from vf.refs import http_ref as H

ID = 'C12'
LEVEL = 'exploration'
RULE = ('Hypothesis draws a route table (1..2 plugins x 1..3 routes: static with 1..3 URLs / dynamic->Url / dynamic->literal; '
        'regexes from a pool with overlaps), the request (method, path from a pool hitting none/one/several routes, 0..5 '
        'headers, optional Content-Length body), --rewrite-host-header, whether the first upstream connect is refused, and the schedule; plus live conversations (1..3 keep-alive requests, drawn segmentation, responses 0..300 KB) through routes to real TLS origins named by registered name / IPv4 / IPv6 literal / default port 443. '
        'Non-trivial: table has >= 2 routes and the path matches >= 1; distinct by case hash.')
ASSUMPTIONS = ['python re.match as the matcher model (the documentation says routes are regular expressions)', 'h11 + raw header splitter']

TABLE: List[List[Dict[str, Any]]] = [[], []]
_CLS: Dict[str, Any] = {}
_FLAGS: Dict[Any, Any] = {}

REGEXES = [r'/a$', r'/a/', r'/a', r'/b/(\d+)$', r'/(a|b)/x$', r'/c/.*', r'/$', r'/d/e/f$', r'.*/zz$']
PATHS = ['/a', '/a/', '/a/x', '/b/12', '/b/x', '/c/anything/here', '/', '/d/e/f', '/q/zz', '/nomatch', '/a?k=v', '/b/7?x=1', '/A', '/aa']
URLS = [b'http://u1.test/t1', b'http://u2.test:8081/t2/deep?fixed=1', b'http://u3.test', b'http://u4.test:80/', b'https://s1.test/sec',
        b'https://s2.test:8443/sec2', b'http://10.1.1.1:9000/ip', b'http://u5.test:8080',
        b'http://[::1]:9001/v6', b'http://[fd00::2]/v6-default-port', b'https://[fd00::3]:9443/v6s']
LITERAL = b'HTTP/1.1 200 OK\r\nContent-Length: 15\r\nX-Literal: %d\r\n\r\nliteral-reply-%d'


def classes() -> List[Any]:
    if 'c' in _CLS:
        return _CLS['c']
    from proxy.http.server import ReverseProxyBasePlugin
    from proxy.http import Url

    def make(idx: int) -> Any:
        class R(ReverseProxyBasePlugin):
            def routes(self) -> List[Any]:
                out: List[Any] = []
                for r in TABLE[idx]:
                    if r['kind'] == 'static':
                        out.append((r['regex'], list(r['urls'])))
                    else:
                        out.append(r['regex'])
                return out

            def handle_route(self, request: Any, pattern: Any) -> Any:
                for r in TABLE[idx]:
                    if r['kind'] != 'static' and re.compile(r['regex']).pattern == pattern.pattern:
                        if r['kind'] == 'dyn_url':
                            return Url.from_bytes(r['urls'][0])
                        return memoryview(LITERAL % (r['lit'], r['lit']))
                raise AssertionError('handle_route called for an unknown pattern %r' % pattern.pattern)
        R.__name__ = R.__qualname__ = 'VfR%d' % idx
        return R
    _CLS['c'] = [make(0), make(1)]
    return _CLS['c']


def flags_for(nplugins: int, rewrite: bool) -> Any:
    key = (nplugins, rewrite)
    if key not in _FLAGS:
        argv = ['--threadless', '--enable-reverse-proxy'] + (['--rewrite-host-header'] if rewrite else [])
        _FLAGS[key] = K.make_flags(argv, plugins=classes()[:nplugins])
    return _FLAGS[key]


def url_parts(u: bytes) -> Tuple[str, int, bytes, bytes]:
    """(host, port, request path the origin must see, authority as written) from an independent parse"""
    from urllib.parse import urlsplit
    s = urlsplit(u.decode())
    port = s.port if s.port is not None else (443 if s.scheme == 'https' else 80)
    path = (s.path or '') + (('?' + s.query) if s.query else '')
    auth = s.netloc.rsplit('@', 1)[-1].encode()      # the authority as written (an IPv6 literal keeps its brackets)
    return s.hostname or '', port, (path or '/').encode(), auth


def run_case(c: Dict[str, Any]) -> Dict[str, Any]:
    TABLE[0] = c['table'][0]
    TABLE[1] = c['table'][1] if len(c['table']) > 1 else []
    random.seed(jsonio.chash(c))
    flags = flags_for(len(c['table']), c['rewrite'])
    w = K.World(flags, max_iters=8000)
    req = G.render(c['req'])
    client = K.Peer('client', out=req, script=[['send', n] for n in c.get('segs', [])])
    w.add_client(client)
    origins: List[ReactiveOrigin] = []

    def fac(world: K.World, addr: Tuple[str, int], idx: int) -> Tuple[K.Peer, Optional[Dict[str, Any]]]:
        o = ReactiveOrigin('origin%d' % idx, responder=lambda o_, raw, n: b'HTTP/1.1 200 OK\r\nContent-Length: 11\r\nX-From: %s\r\n\r\norigin-body' % addr[0].encode())
        origins.append(o)
        return o, None
    w.origin_factory = fac
    # https upstreams: observe the connect, then refuse it
    https_endpoints = set()
    v6 = lambda h: '[' + h + ']' if ':' in h else h     # noqa: E731  (the harness sees the host as the proxy spells it)
    for plug in c['table']:
        for r in plug:
            for u in r.get('urls', []):
                if u.startswith(b'https://'):
                    h, p, _, _ = url_parts(u)
                    https_endpoints.add((h, p))
                    https_endpoints.add((v6(h), p))
    orig_on_connect = w.on_connect

    def on_connect(addr: Any, source_address: Any, **kw: Any) -> Any:
        if (addr[0], addr[1]) in https_endpoints:
            w.connect_plan[len(w.connect_log)] = 'refused'
        return orig_on_connect(addr, source_address, **kw)
    w.on_connect = on_connect     # type: ignore[method-assign]
    if c.get('refuse_first'):
        # the upstream picked first is down: whatever the proxy does next (give up, or try another URL of the route), a request
        # that does get forwarded must be the one its endpoint's URL asks for
        w.connect_plan[0] = 'refused'
    w.order = ['client', 'origin0']
    w.schedule = c['schedule']
    # no TLS handshake can complete inside this single-threaded world (https endpoints refuse the connect, so the unchanged
    # code never starts one): an attempt is recorded and fails at once instead of blocking on a peer that cannot answer
    import ssl
    from proxy.core.connection.server import TcpServerConnection
    wraps: List[Any] = []
    real_wrap = TcpServerConnection.wrap

    def wrap(self_: Any, hostname: Any = None, *a: Any, **kw: Any) -> None:
        wraps.append((hostname, tuple(self_.addr)))
        raise ssl.SSLError('vf: TLS handshake attempted inside harness K')
    TcpServerConnection.wrap = wrap      # type: ignore[method-assign]
    try:
        w.run_local()
    finally:
        TcpServerConnection.wrap = real_wrap      # type: ignore[method-assign]
    return {'world': w, 'client': client, 'origins': origins, 'req': req, 'wraps': wraps}


def evaluate(c: Dict[str, Any]) -> Tuple[List[Any], Dict[str, Any]]:
    path = c['req']['target'].decode()
    matching: List[Dict[str, Any]] = []
    nroutes = 0
    for plug in c['table']:
        for r in plug:
            nroutes += 1
            if re.compile(r['regex']).match(path):
                matching.append(r)
    r_ = run_case(c)
    w: K.World = r_['world']
    client = r_['client']
    kinds = sorted(set(m['kind'] for m in matching))
    feat = {'matches': min(len(matching), 2), 'kinds': kinds, 'rewrite': c['rewrite']}
    info = {'nroutes': nroutes, 'matches': len(matching)}
    out: List[Any] = []
    try:
        if w.budget_exhausted:
            info['inconclusive'] = True
            return out, info
        if w.worker_died:
            return [('worker-died', dict(feat, exc=(w.exceptions or [('', 'loop-stopped')])[0][1].split(':')[0]), w.exceptions[:1], None)], info
        got = bytes(client.inbuf)
        conns = [(x['addr'], x['result']) for x in w.connect_log]
        if r_['wraps']:
            # every https endpoint refuses the connect here, so a handshake can only have been started on a connection to an
            # endpoint that an http:// URL names
            return [('tls-handshake-towards-a-plain-http-upstream', feat, r_['wraps'][:2], 'no TLS towards http:// URLs')], info
        p = H.parse_responses(got, [c['req']['method']], eof=client.eof_iter is not None)
        if c.get('refuse_first') and matching and conns:
            established = [x for x in conns if x[1] == 'ok']
            if not established:
                info['refused_only'] = True
                if bytes(b''.join(bytes(o.inbuf) for o in r_['origins'])):
                    out.append(('request-bytes-at-an-origin-without-a-connection', feat, conns, None))
                return out, info
            conns = established[:1] if len(established) == 1 else established
        if not matching:
            if conns:
                out.append(('outbound-connection-without-matching-route', feat, conns, []))
            if not (p.ok and len(p.messages) == 1 and p.messages[0]['code'] == 404):
                out.append(('no-404-for-unrouted-path', feat, {'h11': repr(p), 'bytes': got[:80]}, 404))
            elif client.eof_iter is None:
                out.append(('connection-open-after-404', feat, None, 'EOF'))
            return out, info
        # admissible outcomes
        lit_ok = [LITERAL % (m['lit'], m['lit']) for m in matching if m['kind'] == 'dyn_lit']
        url_ok = []
        for m in matching:
            if m['kind'] == 'static':
                url_ok += list(m['urls'])
            elif m['kind'] == 'dyn_url':
                url_ok.append(m['urls'][0])
        if not conns:
            if got in lit_ok:
                return out, info
            out.append(('matching-route-not-served', feat, {'client': got[:120], 'connects': conns},
                        {'literal': len(lit_ok), 'urls': url_ok[:4]}))
            return out, info
        if len(conns) != 1:
            out.append(('several-outbound-connections-for-one-request', feat, conns, 1))
            return out, info
        (addr, result) = conns[0]
        if addr[0].startswith('[') and addr[0].endswith(']'):
            # the harness stands in for proxy.common.utils.new_socket_connection, which itself strips the brackets of an
            # IPv6 literal before handing it to the operating system: '[x]' and 'x' name the same endpoint here
            addr = (addr[0][1:-1],) + tuple(addr[1:])
        cands = [u for u in url_ok if (url_parts(u)[0], url_parts(u)[1]) == (addr[0], addr[1])]
        if not cands:
            out.append(('connected-to-endpoint-of-no-matching-route', feat, {'connect': addr}, [url_parts(u)[:2] for u in url_ok]))
            return out, info
        if result != 'ok':
            info['https_observed'] = True
            return out, info      # https upstream: port derivation observed, connection refused by design
        o = r_['origins'][0]
        pr = H.parse_requests(bytes(o.inbuf))
        if not pr.ok or len(pr.messages) != 1 or pr.partial:
            out.append(('origin-received-malformed-or-incomplete-request', feat, {'h11': repr(pr), 'bytes': bytes(o.inbuf)[:160]}, None))
            return out, info
        m = pr.messages[0]
        _, raw_hs, _ = H.split_head(bytes(o.inbuf))
        ok_variant = False
        diffs = []
        for u in cands:
            _, _, upath, uauth = url_parts(u)
            d = []
            if m['target'] != upath:
                d.append(('path', m['target'], upath))
            want_host = uauth if c['rewrite'] else [h[1] for h in c['req']['headers'] if h[0].lower() == b'host'][0]
            got_host = [v for k_, v in raw_hs if k_.lower() == b'host']
            if got_host != [want_host]:
                d.append(('host', got_host, want_host))
            if not d:
                ok_variant = True
                break
            diffs.append(d)
        if not ok_variant:
            out.append(('upstream-request-path-or-host-differs', dict(feat, field=diffs[0][0][0]), diffs[0], None))
        if m['method'] != c['req']['method'] or m['body'] != c['req']['body']:
            out.append(('method-or-body-changed', feat, (m['method'], m['body'][:40]), (c['req']['method'], c['req']['body'][:40])))
        framing = {b'content-length', b'transfer-encoding', b'host'}
        want_h = sorted((h[0], h[1]) for h in G.all_headers(c['req']) if h[0].lower() not in framing)
        got_h = sorted((k_, v) for k_, v in raw_hs if k_.lower() not in framing)
        if want_h != got_h:
            out.append(('headers-changed', feat, {'extra': [x for x in got_h if x not in want_h][:4],
                                                 'missing': [x for x in want_h if x not in got_h][:4]}, None))
        # relay of the response
        want_client = bytes(o.out)
        if got != want_client:
            out.append(('upstream-response-not-relayed-unmodified', feat, got[:160], want_client[:160]))
        return out, info
    finally:
        w.teardown()


def replay(case: Dict[str, Any]) -> List[Dict[str, Any]]:
    if case.get('tls_upstream'):
        from vf.props import c12_tls
        try:
            with K.unpatched():
                vs, _ = c12_tls.evaluate(case)
        finally:
            c12_tls.stop()
        return [{'property': ID, 'clause': cl, 'features': ft, 'case': case, 'observed': ob, 'expected': ex} for (cl, ft, ob, ex) in vs]
    vs, _ = evaluate(case)
    return [{'property': ID, 'clause': cl, 'features': ft, 'case': case, 'observed': ob, 'expected': ex} for (cl, ft, ob, ex) in vs]


# -- generation ---------------------------------------------------------------------------------

@st.composite
def route(draw: Any, lit_id: int) -> Dict[str, Any]:
    kind = draw(st.sampled_from(['static', 'static', 'dyn_url', 'dyn_lit']))
    r: Dict[str, Any] = {'kind': kind, 'regex': draw(st.sampled_from(REGEXES))}
    if kind == 'static':
        r['urls'] = draw(st.lists(st.sampled_from(URLS), min_size=1, max_size=3, unique=True))
    elif kind == 'dyn_url':
        r['urls'] = [draw(st.sampled_from(URLS))]
    else:
        r['lit'] = lit_id
    return r


@st.composite
def cases(draw: Any) -> Dict[str, Any]:
    nplug = draw(st.integers(1, 2))
    table = []
    lid = 0
    used = set()
    for _ in range(nplug):
        rs = []
        for _ in range(draw(st.integers(1, 3))):
            r = draw(route(lid))
            lid += 1
            if r['regex'] in used:      # one regex per table: the web server keys its route map by compiled pattern
                continue
            used.add(r['regex'])
            rs.append(r)
        table.append(rs)
    req = draw(G.request_spec(form='origin', host=b'front.test', framings=('none', 'cl'), max_body=200, max_headers=5,
                              versions=(b'HTTP/1.1',), methods=st.sampled_from([b'GET', b'POST', b'PUT', b'DELETE', b'PATCH'])))
    req['target'] = draw(st.sampled_from(PATHS)).encode()
    if draw(st.integers(0, 4)) == 0:
        # an upgrade proposal (what a websocket client sends first): routed and forwarded like any other request - the reverse
        # proxy does not take the upgrade itself
        names = {h[0].lower() for h in req['headers']}
        for h in ([b'Connection', b'Upgrade', 0], [b'Upgrade', b'websocket', 0], [b'Sec-WebSocket-Key', b'dGhlIHNhbXBsZSBub25jZQ==', 0],
                  [b'Sec-WebSocket-Version', b'13', 0]):
            if h[0].lower() not in names:
                req['headers'].append(h)
    raw_len = len(G.render(req))
    return {'table': table, 'req': req, 'rewrite': draw(st.booleans()), 'refuse_first': draw(st.integers(0, 5)) == 0,
            'segs': draw(st.lists(st.integers(1, max(2, raw_len)), max_size=3)),
            'schedule': draw(st.lists(st.integers(0, 2), max_size=20))}


def shards(tier: str) -> List[Dict[str, Any]]:
    q = tier == 'quick'
    return [{'name': 'routes-%02d' % i, 'examples': 280 if q else 4000} for i in range(16)] + \
        [{'name': 'tls-upstream-%d' % i, 'kind': 'tlslive', 'examples': 40 if q else 500} for i in range(2 if q else 6)]


def run_shard(spec: Dict[str, Any], seed: int, acc: Any) -> None:
    if spec.get('kind') == 'tlslive':
        import shutil
        from vf.props import c12_tls
        if shutil.which('openssl') is None:
            raise RuntimeError('openssl is required for the live TLS tier of C12')

        def chk_tls(c: Dict[str, Any]) -> List[Any]:
            vs, info = c12_tls.evaluate(c)
            if info.get('inconclusive'):
                acc.dontcare += 1
            acc.case(c, info['nt'], labels=['live-https-upstream', 'rewrite:%s' % c['rewrite'], 'requests:%d' % len(c['reqs']), 'routed:%d' % info['routed'],
                                            'response-bytes:%d' % c['resp_size']] + sorted({'path:' + r_['target'].decode() for r_ in c['reqs']}))
            return vs
        try:
            with K.unpatched():
                hyp.drive(c12_tls.cases(), chk_tls, acc, max_examples=spec['examples'], seed=seed, shrink=False, max_rounds=6)
        finally:
            c12_tls.stop()
        return
    def chk(c: Dict[str, Any]) -> List[Any]:
        vs, info = evaluate(c)
        labs = ['matches:%d' % min(info['matches'], 3), 'routes:%d' % info['nroutes'], 'rewrite:%s' % c['rewrite']]
        if any(h[0].lower() == b'upgrade' for h in c['req']['headers']):
            labs.append('upgrade-proposal')
        if info.get('https_observed'):
            labs.append('https-upstream-port-observed')
        if c.get('refuse_first'):
            labs.append('first-connect-refused' + (':gave-up' if info.get('refused_only') else ''))
        if info.get('inconclusive'):
            acc.dontcare += 1
        acc.case(c, info['nroutes'] >= 2 and info['matches'] >= 1, labels=labs)
        return vs
    hyp.drive(cases(), chk, acc, max_examples=spec['examples'], seed=seed, max_rounds=8)
