"""C16 - WebSocket frames round-trip for every size and flag combination.

Oracle: vf.refs.ws_ref (RFC 6455 section 5.2 written independently).
 (a) build() == ws_ref.encode(...) byte for byte
 (b) parse(build()+tail) yields the same fields and payload and returns exactly `tail`
 (c) any byte string that ws_ref decodes as frame+tail is parsed identically by WebsocketFrame.parse
 (d) key_to_accept == b64(sha1(key+GUID))
 (e) the codec as the built-in web server runs it: after a real upgrade on a harness-K connection the client sends a
     drawn stream of 1..6 frames (masked and unmasked mixed, 1..3 whole frames per segment); the frames handed to the
     route's on_websocket_message equal the frames sent, in order, and the route's echoes decode with the reference
"""
import itertools
from typing import Any, Dict, List, Tuple

from hypothesis import strategies as st

from vf.core import hyp
from vf.refs import ws_ref

ID = 'C16'
LEVEL = 'exploration'
ALL_EXHAUSTIVE = False
RULE = ('grid: all 2^4 FIN/RSV x 16 opcodes x {unmasked, 3 keys} x payload lengths {0..130, 65530..65540} '
        '(x 2 tails) enumerated completely; sampled: Hypothesis-drawn flags/opcode/key/payload (lengths up to 2^20 quick, '
        '2^23 thorough)/tail, plus raw byte strings accepted by the reference decoder; handshake keys; frame streams of 1..6 '
        'frames through the web server\'s websocket route. '
        'A case is non-trivial when payload length >= 126 or it is masked or an RSV bit is set; '
        'distinct = distinct (bits, opcode, key, length, payload hash, tail).')
EXPLANATION = ('Sub-spaces enumerated completely are listed in exhaustive_subspaces; the sampled part is not exhaustive.')
ASSUMPTIONS = ['struct/hashlib/base64 of the standard library are correct',
               'ws_ref (vf/refs/ws_ref.py) is a faithful transcription of RFC 6455 5.2/4.2.2 (self-tested on the RFC examples)']

GRID_LENGTHS = list(range(0, 131)) + list(range(65530, 65541))
GRID_KEYS = [None, b'\x00\x00\x00\x00', b'\x37\xfa\x21\x3d', b'\xff\x01\x80\x7f']
_PATTERN = bytes((i * 37 + 11) & 0xFF for i in range(256))


def _payload(n: int, salt: int = 0) -> bytes:
    p = _PATTERN[salt % 256:] + _PATTERN[:salt % 256]
    return (p * (n // 256 + 1))[:n]


def len_class(n: int) -> str:
    return '0' if n == 0 else '<126' if n < 126 else '<65536' if n < 65536 else '>=65536'


def check_case(c: Dict[str, Any]) -> List[Any]:
    """Returns raw violations (clause, features, observed, expected)."""
    from proxy.http.websocket.frame import WebsocketFrame
    bits, opcode, key, tail = c['bits'], c['opcode'], c['key'], c.get('tail', b'')
    payload = c['payload'] if 'payload' in c else _payload(c['n'], c.get('salt', 0))
    fin, r1, r2, r3 = bool(bits & 8), bool(bits & 4), bool(bits & 2), bool(bits & 1)
    feat = {'len_class': len_class(len(payload)), 'masked': key is not None}
    expected = ws_ref.encode(fin, r1, r2, r3, opcode, key, payload)
    f = WebsocketFrame()
    f.fin, f.rsv1, f.rsv2, f.rsv3, f.opcode = fin, r1, r2, r3, opcode
    f.masked = key is not None
    f.mask = key
    f.data = payload
    try:
        raw = f.build()
    except Exception as e:
        return [('build-raises', dict(feat, exc=type(e).__name__), repr(e), 'frame bytes')]
    out = []
    if raw != expected:
        out.append(('encoding-differs-from-rfc', feat, raw[:32], expected[:32]))
        # parse what a conforming peer would have sent instead, so the decoder is still examined
        raw = expected
    out.extend(_check_parse(raw, tail, feat, {'fin': fin, 'rsv1': r1, 'rsv2': r2, 'rsv3': r3, 'opcode': opcode,
                                               'masked': key is not None, 'payload': payload}))
    return out


def _check_parse(raw: bytes, tail: bytes, feat: Dict[str, Any], want: Dict[str, Any]) -> List[Any]:
    from proxy.http.websocket.frame import WebsocketFrame
    g = WebsocketFrame()
    try:
        rest = g.parse(raw + tail)
    except Exception as e:
        return [('parse-raises', dict(feat, exc=type(e).__name__), repr(e), 'parsed frame')]
    out = []
    got = {'fin': g.fin, 'rsv1': g.rsv1, 'rsv2': g.rsv2, 'rsv3': g.rsv3, 'opcode': g.opcode, 'masked': g.masked}
    wantf = {k: want[k] for k in got}
    if got != wantf:
        out.append(('roundtrip-fields', feat, got, wantf))
    if (g.payload_length or 0) != len(want['payload']):
        out.append(('roundtrip-length', feat, g.payload_length, len(want['payload'])))
    if bytes(g.data or b'') != want['payload']:
        out.append(('roundtrip-payload', feat, bytes(g.data or b'')[:48], want['payload'][:48]))
    if bytes(rest) != tail:
        out.append(('remainder', feat, bytes(rest)[:48], tail[:48]))
    return out


def check_raw(c: Dict[str, Any]) -> List[Any]:
    """(c): bytes the reference decodes as one frame + tail must be parsed identically."""
    raw = c['raw']
    d = ws_ref.decode(raw)
    if d is None:
        return []
    fields, rest = d
    feat = {'len_class': len_class(len(fields['payload'])), 'masked': fields['masked']}
    return _check_parse(raw[:len(raw) - len(rest)], rest, feat, fields)


def check_key(c: Dict[str, Any]) -> List[Any]:
    from proxy.http.websocket.frame import WebsocketFrame
    try:
        got = WebsocketFrame.key_to_accept(c['wskey'])
    except Exception as e:
        return [('accept-raises', {'exc': type(e).__name__}, repr(e), ws_ref.accept(c['wskey']))]
    if got != ws_ref.accept(c['wskey']):
        return [('accept-token', {}, got, ws_ref.accept(c['wskey']))]
    return []


# -- the codec as the built-in web server uses it: a stream of frames on one upgraded connection -------------------

_SRV: Dict[str, Any] = {'log': []}


def _ws_flags() -> Any:
    import os
    if _SRV.get('pid') != os.getpid():
        from vf.harness import k as K
        from proxy.http.server import HttpWebServerBasePlugin, httpProtocolTypes

        class VfWsRoute(HttpWebServerBasePlugin):
            """Records every frame the server hands to the route and echoes its payload as an unmasked binary frame."""

            def routes(self) -> List[Tuple[int, str]]:
                return [(httpProtocolTypes.WEBSOCKET, r'/vfws$')]

            def handle_request(self, request: Any) -> None:     # abstract in the base class; never reached for this route
                raise AssertionError('websocket route asked to handle a plain request')

            def on_websocket_message(self, frame: Any) -> None:
                _SRV['log'].append({'fin': frame.fin, 'rsv1': frame.rsv1, 'rsv2': frame.rsv2, 'rsv3': frame.rsv3, 'opcode': frame.opcode,
                                    'masked': frame.masked, 'payload': bytes(frame.data or b'')})
                from proxy.http.websocket.frame import WebsocketFrame
                out = WebsocketFrame()
                out.fin, out.opcode, out.data = True, 2, bytes(frame.data or b'')
                self.client.queue(memoryview(out.build()))
        _SRV.update(pid=os.getpid(), flags=K.make_flags(['--threadless', '--enable-web-server'], plugins=[VfWsRoute]))
    return _SRV['flags']


def check_stream(c: Dict[str, Any]) -> List[Any]:
    """frames: list of {bits, opcode (never 8), key, n, salt}; groups: how many whole frames travel in each segment."""
    from vf.harness import k as K
    K.install()
    flags = _ws_flags()
    del _SRV['log'][:]
    frames = []
    for f in c['frames']:
        b = f['bits']
        frames.append({'fin': bool(b & 8), 'rsv1': bool(b & 4), 'rsv2': bool(b & 2), 'rsv3': bool(b & 1), 'opcode': f['opcode'],
                       'masked': f['key'] is not None, 'payload': _payload(f['n'], f.get('salt', 0)), 'key': f['key']})
    wire = [ws_ref.encode(f['fin'], f['rsv1'], f['rsv2'], f['rsv3'], f['opcode'], f['key'], f['payload']) for f in frames]
    hs = (b'GET /vfws HTTP/1.1\r\nHost: localhost\r\nUpgrade: websocket\r\nConnection: Upgrade\r\n'
          b'Sec-WebSocket-Key: dGhlIHNhbXBsZSBub25jZQ==\r\nSec-WebSocket-Version: 13\r\n\r\n')
    segs: List[bytes] = []
    i = 0
    gi = 0
    while i < len(wire):
        g = max(1, c['groups'][gi % len(c['groups'])]) if c.get('groups') else 1
        segs.append(b''.join(wire[i:i + g]))
        i += g
        gi += 1
    script: List[List[Any]] = [['send', len(hs)], ['read', 100]]
    for sg in segs:
        script += [['send', len(sg)], ['idle'], ['idle']]
    w = K.World(flags, max_iters=20000)
    client = K.Peer('client', out=hs + b''.join(segs), script=script)
    w.add_client(client)
    w.order = ['client']
    w.run_local()
    feat = {'mixed_masking': len({f['masked'] for f in frames}) == 2,
            'several_per_segment': any(g > 1 for g in (c.get('groups') or [1]))}
    out: List[Any] = []
    try:
        if w.budget_exhausted:
            return out
        if w.worker_died:
            return [('worker-died', feat, w.exceptions[:1], None)]
        got = bytes(client.inbuf)
        head, sep, rest = got.partition(b'\r\n\r\n')
        if not head.startswith(b'HTTP/1.1 101') or not sep:
            return [('no-upgrade', feat, got[:120], '101 Switching Protocols')]
        if ws_ref.accept(b'dGhlIHNhbXBsZSBub25jZQ==') not in head:
            out.append(('accept-token', feat, head[:200], ws_ref.accept(b'dGhlIHNhbXBsZSBub25jZQ==')))
        want = [{k_: f[k_] for k_ in ('fin', 'rsv1', 'rsv2', 'rsv3', 'opcode', 'masked', 'payload')} for f in frames]
        log = list(_SRV['log'])
        if len(log) != len(want):
            out.append(('server-frame-count', feat, len(log), len(want)))
        for j, (g_, w_) in enumerate(zip(log, want)):
            if g_ != w_:
                diff = sorted(k_ for k_ in w_ if g_[k_] != w_[k_])
                out.append(('server-frame-differs', dict(feat, fields=diff, after_masked=bool(j and want[j - 1]['masked']), masked=w_['masked']),
                            {'index': j, 'got': {k_: (g_[k_][:32] if k_ == 'payload' else g_[k_]) for k_ in diff}},
                            {k_: (w_[k_][:32] if k_ == 'payload' else w_[k_]) for k_ in diff}))
                break
        # the echoes the route built with the same codec: decode with the reference
        echoed = []
        while rest:
            d = ws_ref.decode(rest)
            if d is None:
                out.append(('echo-stream-truncated', feat, rest[:40], None))
                break
            echoed.append(d[0]['payload'])
            rest = d[1]
        if not out and echoed != [f['payload'] for f in frames]:
            out.append(('echo-differs', feat, [e[:16] for e in echoed][:6], [f['payload'][:16] for f in frames][:6]))
        return out
    finally:
        w.teardown()


def _stream_strategy() -> Any:
    frame = st.fixed_dictionaries({
        'bits': st.sampled_from([8, 8, 8, 0, 12, 9, 15]),
        'opcode': st.sampled_from([0, 1, 1, 2, 2, 9, 10, 3, 11, 15]),
        'key': st.one_of(st.none(), st.binary(min_size=4, max_size=4)),
        'n': st.one_of(st.integers(0, 130), st.sampled_from([125, 126, 127, 4096, 20000])),
        'salt': st.integers(0, 255)})
    return st.fixed_dictionaries({'stream': st.just(True), 'frames': st.lists(frame, min_size=1, max_size=6),
                                  'groups': st.lists(st.integers(1, 3), min_size=1, max_size=4)})


def _nontrivial(c: Dict[str, Any]) -> bool:
    n = len(c['payload']) if 'payload' in c else c.get('n', 0)
    return n >= 126 or c.get('key') is not None or bool(c.get('bits', 0) & 7)


def _dispatch(c: Dict[str, Any]) -> List[Any]:
    if 'stream' in c:
        return check_stream(c)
    if 'raw' in c:
        return check_raw(c)
    if 'wskey' in c:
        return check_key(c)
    return check_case(c)


def replay(case: Dict[str, Any]) -> List[Dict[str, Any]]:
    return [{'property': ID, 'clause': cl, 'features': ft, 'case': case, 'observed': ob, 'expected': ex}
            for (cl, ft, ob, ex) in _dispatch(case)]


# ---------------------------------------------------------------------------------------------

def shards(tier: str) -> List[Dict[str, Any]]:
    out: List[Dict[str, Any]] = []
    for bits in range(16):
        out.append({'name': 'grid-bits%02d' % bits, 'kind': 'grid', 'bits': bits})
    big = 1 << 20 if tier == 'quick' else 1 << 23
    n = 400 if tier == 'quick' else 6000
    for i in range(4 if tier == 'quick' else 16):
        out.append({'name': 'sampled-%02d' % i, 'kind': 'sampled', 'max_len': big, 'examples': n})
    for i in range(2 if tier == 'quick' else 8):
        out.append({'name': 'rawbytes-%02d' % i, 'kind': 'raw', 'examples': 3000 if tier == 'quick' else 40000})
    for i in range(2 if tier == 'quick' else 6):
        out.append({'name': 'server-stream-%02d' % i, 'kind': 'stream', 'examples': 400 if tier == 'quick' else 8000})
    out.append({'name': 'handshake', 'kind': 'key', 'examples': 2000 if tier == 'quick' else 50000})
    if tier != 'quick':
        for t_ in ('raw', 'sampled'):
            out.append({'name': 'atheris-' + t_, 'kind': 'atheris', 'what': t_, 'target': t_, 'runs': 300000, 'examples': 0, 'pair_limit': 0})
    return out


def _sampled_strategy(max_len: int) -> Any:
    boundary = st.sampled_from([0, 1, 125, 126, 127, 65535, 65536, 65537])
    length = st.one_of(boundary, st.integers(0, 300), st.integers(65000, 70000), st.integers(0, max_len))
    key = st.one_of(st.none(), st.binary(min_size=4, max_size=4))
    return st.fixed_dictionaries({
        'bits': st.integers(0, 15), 'opcode': st.integers(0, 15), 'key': key,
        'n': length, 'salt': st.integers(0, 255), 'tail': st.binary(max_size=24),
    }) | st.fixed_dictionaries({
        'bits': st.integers(0, 15), 'opcode': st.integers(0, 15), 'key': key,
        'payload': st.binary(max_size=300), 'tail': st.binary(max_size=24),
    })


def _raw_strategy() -> Any:
    """Bytes on the wire as a peer may legally send them: any first byte, any of the three length
    forms (including non-minimal ones, which a decoder must accept), key, body, tail; sometimes truncated."""
    def mk(b0: int, m: bool, form: int, body: bytes, key: bytes, tail: bytes, cut: int) -> bytes:
        n = len(body)
        mb = 0x80 if m else 0
        if form == 0 and n <= 125:
            h = bytes([b0, mb | n])
        elif form <= 1:
            h = bytes([b0, mb | 126]) + n.to_bytes(2, 'big')
        else:
            h = bytes([b0, mb | 127]) + n.to_bytes(8, 'big')
        raw = h + (key if m else b'') + body + tail
        return raw[:len(raw) - cut] if cut else raw
    framed = st.builds(mk, st.integers(0, 255), st.booleans(), st.integers(0, 2), st.binary(max_size=300),
                       st.binary(min_size=4, max_size=4), st.binary(max_size=12),
                       st.sampled_from([0, 0, 0, 0, 1, 2, 5]))
    return st.fixed_dictionaries({'raw': st.one_of(framed, framed, framed, st.binary(max_size=64))})


def run_shard(spec: Dict[str, Any], seed: int, acc: Any) -> None:
    if spec.get('kind') == 'atheris':
        import sys
        from vf.fuzz import run as fuzz_run
        fuzz_run.campaign(sys.modules[__name__], spec['target'], acc, runs=spec['runs'], seed=seed)
        return
    ws_ref.selftest()
    kind = spec['kind']
    if kind == 'grid':
        bits = spec['bits']
        for opcode, key, n, tail in itertools.product(range(16), GRID_KEYS, GRID_LENGTHS, (b'', b'\x81\x00tail')):
            c = {'bits': bits, 'opcode': opcode, 'key': key, 'n': n, 'tail': tail}
            acc.case(c, _nontrivial(c), labels=('len:' + len_class(n), 'masked' if key else 'unmasked'))
            for (cl, ft, ob, ex) in check_case(c):
                acc.fail(c, cl, ft, ob, ex)
        acc.exhaustive_parts.append('grid bits=%d: 16 opcodes x 4 keys x %d lengths x 2 tails' % (bits, len(GRID_LENGTHS)))
        acc.size('max_payload_len', max(GRID_LENGTHS))
        return
    if kind == 'sampled':
        def chk(c: Dict[str, Any]) -> List[Any]:
            n = len(c['payload']) if 'payload' in c else c['n']
            acc.case(c, _nontrivial(c), labels=('len:' + len_class(n), 'masked' if c['key'] else 'unmasked'))
            acc.size('max_payload_len', n)
            return check_case(c)
        hyp.drive(_sampled_strategy(spec['max_len']), chk, acc, max_examples=spec['examples'], seed=seed)
        return
    if kind == 'raw':
        def chk2(c: Dict[str, Any]) -> List[Any]:
            d = ws_ref.decode(c['raw'])
            acc.case(c, d is not None and (d[0]['masked'] or len(d[0]['payload']) >= 126 or c['raw'][0] & 0x70 != 0),
                     labels=('raw:decodable' if d else 'raw:incomplete',))
            return check_raw(c)
        hyp.drive(_raw_strategy(), chk2, acc, max_examples=spec['examples'], seed=seed)
        return
    if kind == 'stream':
        def chk4(c: Dict[str, Any]) -> List[Any]:
            fr = c['frames']
            mixed = len({f['key'] is not None for f in fr}) == 2
            acc.case(c, len(fr) >= 2 and (mixed or any(f['n'] >= 126 for f in fr)),
                     labels=('server-stream', 'frames:%d' % len(fr)) + (('mixed-masking',) if mixed else ()))
            return check_stream(c)
        hyp.drive(_stream_strategy(), chk4, acc, max_examples=spec['examples'], seed=seed)
        return
    if kind == 'key':
        def chk3(c: Dict[str, Any]) -> List[Any]:
            acc.case(c, len(c['wskey']) > 0, labels=('handshake',))
            return check_key(c)
        import base64
        keys = st.one_of(st.binary(min_size=16, max_size=16).map(base64.b64encode), st.binary(max_size=64))
        hyp.drive(st.fixed_dictionaries({'wskey': keys}), chk3, acc, max_examples=spec['examples'], seed=seed)
        return
    raise ValueError(kind)


def fuzz_targets() -> Dict[str, Any]:
    """Coverage-guided campaigns of the thorough tier (atheris drives these strategies through fuzz_one_input)."""
    return {'raw': (_raw_strategy(), check_raw), 'sampled': (_sampled_strategy(1 << 17), check_case)}
