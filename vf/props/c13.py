"""C13 - the static file server never serves anything outside its directory.

A temp tree  top/{public/{index.html,a.txt,.hidden,sub/b.txt}, secret.txt, public.txt, public-evil/x.txt}  with unique file
contents; the static root is top/public.  Request paths are concatenations of tokens from an alphabet of existing
names, '/', '//', '.', '..', '%2e', '%2e%2e', '%2f', '%00', '?', '#'.  All paths of <= 4 tokens are enumerated
(<= 5 in the thorough tier), longer ones are sampled.
Oracle (ground truth from the file system, not from the proxy): target = realpath(root + path-without-query).
 * target outside realpath(root)  ->  the answer must be 404 and contain no file's unique content
 * answer 200                      ->  target is a regular file inside the root and the body (after undoing
                                       Content-Encoding: gzip, framing checked by h11) is exactly that file
 * plain existing names joined by single '/' -> 200 (sanity: the server does serve)
 * the answer to path?query equals the answer to path
"""
import os
import gzip
import shutil
import tempfile
import itertools
from typing import Any, Dict, List, Optional, Tuple

from hypothesis import strategies as st

from vf.core import hyp
from vf.harness import k as K
from vf.refs import http_ref as H

ID = 'C13'
LEVEL = 'exploration'
ALL_EXHAUSTIVE = False
TOKENS = ['/', '//', '.', '..', '%2e', '%2e%2e', '%2f', '%00', '?', '#', 'a.txt', 'sub', 'b.txt', 'index.html', '.hidden', 'link',
          'secret.txt', 'public-evil', 'x.txt', 'public', 'public.txt', 'nonexistent']
OCTET_TOKENS = ['/', '.', '..', 'secret.txt', 'a.txt', 'sub', '\xff', '\xc0\xaf', '.\xff.', '.\xc0.', '\xe9']
RULE = ('paths = "/" + concatenation of tokens from %r; every path of <= 4 tokens (quick) / <= 5 tokens (thorough) is '
        'enumerated, as is every path of <= 4 tokens over a second alphabet with octets that are not UTF-8 (%r); longer ones (<= 12 tokens) are drawn by Hypothesis; --min-compression-length in {0, 20, 10^6}. '
        'Non-trivial: the path contains ".." and its target exists outside the root, or the answer is 200; distinct by path.' % (TOKENS, OCTET_TOKENS))
EXPLANATION = 'exhaustive_subspaces lists the token-length classes enumerated completely; longer paths are sampled'
ASSUMPTIONS = ['os.path.realpath as ground truth for where a literal path leads', 'h11 decodes the responses']

FILES = {
    'public/index.html': b'<html>INDEX-UNIQUE-1f3a</html>',
    'public/a.txt': b'A-TXT-UNIQUE-77c1 ' + b'a' * 64,
    'public/.hidden': b'HIDDEN-UNIQUE-90be',
    'public/sub/b.txt': b'B-TXT-UNIQUE-5d2e ' + b'b' * 300,
    'secret.txt': b'SECRET-UNIQUE-e1f0-must-never-leave',
    'public-evil/x.txt': b'EVIL-UNIQUE-4c4c-sibling-directory',
    'public.txt': b'SIBLING-FILE-UNIQUE-8a8a-name-extends-the-root-name',
    'public/sub/deep/c.txt': b'C-TXT-UNIQUE-33aa-deep-inside',
}
_T: Dict[str, Any] = {}
_FLAGS: Dict[Any, Any] = {}


def tree() -> str:
    if _T.get('pid') != os.getpid():
        top = tempfile.mkdtemp(prefix='vf-c13-')
        for rel, data in FILES.items():
            p = os.path.join(top, rel)
            os.makedirs(os.path.dirname(p), exist_ok=True)
            with open(p, 'wb') as f:
                f.write(data)
        # a directory symlink inside the root whose target lies deeper than the link itself: after it, '..' means something else
        # to the file system (resolves the link first) than to a textual normalisation of the path
        os.symlink(os.path.join('sub', 'deep'), os.path.join(top, 'public', 'link'))
        _T.update(pid=os.getpid(), top=top)
        _FLAGS.clear()
        import atexit
        atexit.register(lambda d=top, pid=os.getpid(): os.getpid() == pid and shutil.rmtree(d, ignore_errors=True))
    return _T['top']


def flags_for(mcl: int) -> Any:
    root = os.path.join(tree(), 'public')
    if mcl not in _FLAGS:
        _FLAGS[mcl] = K.make_flags(['--threadless', '--enable-web-server', '--enable-static-server', '--static-server-dir', root,
                                    '--min-compression-length', str(mcl)])
    return _FLAGS[mcl]


def fetch(path: str, mcl: int) -> Dict[str, Any]:
    flags = flags_for(mcl)
    w = K.World(flags, max_iters=5000, settle=4)
    req = b'GET ' + path.encode('latin-1') + b' HTTP/1.1\r\nHost: localhost\r\n\r\n'
    c = K.Peer('client', out=req, script=[['send', len(req)]])
    w.add_client(c)
    w.order = ['client']
    w.run_local()
    got = bytes(c.inbuf)
    p = H.parse_responses(got, [b'GET'], eof=c.eof_iter is not None)
    res: Dict[str, Any] = {'died': w.worker_died, 'raw': got, 'ok': p.ok and len(p.messages) == 1 and not p.partial,
                           'eof': c.eof_iter is not None, 'err': p.error}
    if res['ok']:
        m = p.messages[0]
        body = m['body']
        if dict((k_.lower(), v) for k_, v in m['headers']).get(b'content-encoding') == b'gzip':
            try:
                body = gzip.decompress(body)
            except Exception:
                res['ok'] = False
                res['err'] = 'gzip'
        res.update(code=m['code'], body=body)
    w.teardown()
    return res


_WARM: Dict[Any, bool] = {}


def warm_up(mcl: int) -> None:
    """Every case (and every replay, in its fresh process) is preceded by the same small history in its worker: one file
    that is served compressed and one that is not.  What a served file looks like must not depend on what was served before;
    with the history fixed, a case that shows such a dependence reproduces from its replay file alone."""
    key = (os.getpid(), mcl)
    if key in _WARM:
        return
    _WARM[key] = True
    for p_ in ('/sub/b.txt', '/a.txt', '/.hidden', '/nonexistent'):
        fetch(p_, mcl)


def evaluate(c: Dict[str, Any]) -> Tuple[List[Any], Dict[str, Any]]:
    path = '/' + ''.join(c['tokens'])
    if path.startswith('//'):
        # proxy.py documents a target beginning with '//' as a scheme-less URL (host follows), i.e. a proxy request,
        # not a path of the built-in web server: outside this property's domain
        return [], {'inside': None, 'code': None, 'outside_existing': False, 'dontcare': 'network-path-reference'}
    mcl = c.get('mcl', 20)
    top = tree()
    warm_up(mcl)
    root = os.path.realpath(os.path.join(top, 'public'))
    wo_query = path.split('?', 1)[0]
    # the request target is a sequence of octets (the case spells them as latin-1 characters); the file system sees those octets
    target = os.fsdecode(os.path.realpath(os.fsencode(root) + wo_query.encode('latin-1')))
    inside = target == root or target.startswith(root + os.sep)
    r = fetch(path, mcl)
    spelled = 'non-utf8-octets' if any(ord(ch) > 127 for ch in path) else 'dotdot' if '..' in wo_query.split('/') else 'encoded' if any(t.startswith('%') for t in c['tokens']) else 'plain'
    feat = {'inside': inside, 'target_exists': os.path.exists(target), 'spelling': spelled}
    info = {'inside': inside, 'code': r.get('code'), 'outside_existing': (not inside) and os.path.isfile(target) and '..' in c['tokens']}
    out: List[Any] = []
    if r['died']:
        return [('worker-died', feat, path, None)], info
    if not r['ok']:
        return [('malformed-or-missing-response', feat, {'path': path, 'raw': r['raw'][:100], 'err': r['err']}, 'one complete response')], info
    leaked = [rel for rel, data in FILES.items() if data in r['body']]
    if not inside:
        if r['code'] != 404 or leaked:
            out.append(('served-outside-static-root', dict(feat, leaked=bool(leaked)), {'path': path, 'code': r['code'], 'leaked': leaked},
                        {'code': 404}))
    if r['code'] == 200:
        if not (inside and os.path.isfile(target)):
            if inside:
                out.append(('200-for-something-that-is-not-a-file', feat, {'path': path, 'target': target}, None))
        else:
            with open(target, 'rb') as f:
                want = f.read()
            if r['body'] != want:
                out.append(('served-content-differs-from-file', feat, {'path': path, 'len': len(r['body'])}, {'len': len(want)}))
    elif r['code'] != 404:
        out.append(('unexpected-status', dict(feat, code=r['code']), path, '200 or 404'))
    # sanity: plain names joined by '/'
    if all(t not in ('//', '.', '..', '%2e', '%2e%2e', '%2f', '%00', '?', '#') for t in c['tokens']) and inside and os.path.isfile(root + wo_query) \
            and r['code'] != 200:
        out.append(('existing-file-not-served', feat, {'path': path, 'code': r['code']}, 200))
    # query independence
    if '?' not in path and c.get('with_query', True):
        # queries that merely carry a value, and queries whose own dot-segments would lead elsewhere if the server resolved
        # the path together with the query (back into the root, further out, to another file)
        for q_ in ('?x=1&y=../../secret.txt', '?/../public/index.html', '?/../..', '?/../a.txt', '?/..', '?%2e%2e/%2e%2e'):
            r2 = fetch(path + q_, mcl)
            if (r2.get('code'), r2.get('body')) != (r.get('code'), r.get('body')):
                out.append(('query-string-changes-the-answer', dict(feat, query=q_), {'path': path, 'with': r2.get('code'), 'without': r.get('code')}, None))
                break
    return out, info


def replay(case: Dict[str, Any]) -> List[Dict[str, Any]]:
    vs, _ = evaluate(case)
    return [{'property': ID, 'clause': cl, 'features': ft, 'case': case, 'observed': ob, 'expected': ex} for (cl, ft, ob, ex) in vs]


def shards(tier: str) -> List[Dict[str, Any]]:
    q = tier == 'quick'
    maxlen = 4 if q else 5
    out = []
    # exhaustive: split by first token (20 shards) for the longest class; shorter classes in one shard
    out.append({'name': 'exh-short', 'kind': 'exh', 'lens': [0, 1, 2, 3] if q else [0, 1, 2, 3, 4], 'first': None})
    for t in TOKENS:
        out.append({'name': 'exh-%d-%s' % (maxlen, t.replace('/', 'S').replace('%', 'P').replace('?', 'Q').replace('#', 'H')),
                    'kind': 'exh', 'lens': [maxlen], 'first': t})
    for i in range(4 if q else 16):
        out.append({'name': 'sampled-%d' % i, 'kind': 'sampled', 'examples': 700 if q else 12000})
    out.append({'name': 'symlink-family', 'kind': 'symlink'})
    for i in range(len(OCTET_TOKENS)):
        out.append({'name': 'octets-%d' % i, 'kind': 'octets', 'first': i})
    return out


def symlink_paths() -> List[List[str]]:
    """Paths that walk through the directory symlink `link` (-> sub/deep) and then upwards: /link/c.txt, /link/../b.txt,
    /link/../../a.txt ... up to four '..' and every file name of the tree."""
    names = ['c.txt', 'b.txt', 'a.txt', 'index.html', 'secret.txt', 'public.txt', 'sub', 'public', 'public-evil']
    out = []
    for ups in range(0, 5):
        for first in ('link', 'link/.', 'sub/deep'):
            for name in names:
                toks: List[str] = []
                for part in first.split('/'):
                    toks += [part, '/']
                for _ in range(ups):
                    toks += ['..', '/']
                toks.append(name)
                out.append(toks)
                if name in ('public', 'sub', 'public-evil'):
                    out.append(toks + ['/', {'public': 'a.txt', 'sub': 'b.txt', 'public-evil': 'x.txt'}[name]])
    return out


def run_shard(spec: Dict[str, Any], seed: int, acc: Any) -> None:
    try:
        if spec['kind'] == 'symlink':
            for toks in symlink_paths():
                for mcl in (20, 10 ** 6):
                    c = {'tokens': list(toks), 'mcl': mcl, 'with_query': True}
                    vs, info = evaluate(c)
                    acc.case(c, bool('..' in toks), labels=('symlink-family', 'inside' if info['inside'] else 'outside', 'code:%s' % info['code']), key=''.join(toks) + ':%d' % mcl)
                    for (cl, ft, ob, ex) in vs:
                        acc.fail(c, cl, ft, ob, ex)
            acc.exhaustive_parts.append('symlink family: {link, link/., sub/deep} x 0..4 parent steps x 9 names (+ one level below directories)')
            return
        if spec['kind'] == 'octets':
            # octets that are not UTF-8, alone and inside / next to dot-segments: whatever the server decodes, drops or replaces
            # on the way from the containment test to open() must not change which file is meant
            for n in range(1, 5):
                for toks in itertools.product([OCTET_TOKENS[spec['first']]], *([OCTET_TOKENS] * (n - 1))):
                    if not any(ord(ch) > 127 for t in toks for ch in t):
                        continue
                    c = {'tokens': list(toks), 'mcl': 20, 'with_query': n <= 2}
                    vs, info = evaluate(c)
                    acc.case(c, True, labels=('non-utf8-octets', 'inside' if info['inside'] else 'outside', 'code:%s' % info['code']), key=''.join(toks))
                    for (cl, ft, ob, ex) in vs:
                        acc.fail(c, cl, ft, ob, ex)
            acc.exhaustive_parts.append('all paths of <= 4 tokens over %r starting with %r and containing an octet >= 0x80' % (OCTET_TOKENS, OCTET_TOKENS[spec['first']]))
            return
        if spec['kind'] == 'exh':
            for n in spec['lens']:
                firsts = [spec['first']] if spec['first'] is not None else TOKENS
                if n == 0:
                    combos: Any = [()]
                elif spec['first'] is not None:
                    combos = ((spec['first'],) + rest for rest in itertools.product(TOKENS, repeat=n - 1))
                else:
                    combos = itertools.product(TOKENS, repeat=n)
                for toks in combos:
                    c = {'tokens': list(toks), 'mcl': 20, 'with_query': n <= 3}
                    vs, info = evaluate(c)
                    if info.get('dontcare'):
                        acc.dontcare += 1
                    acc.case(c, bool(info['outside_existing'] or info['code'] == 200),
                             labels=(info.get('dontcare') or ('inside' if info['inside'] else 'outside'), 'code:%s' % info['code']), key=''.join(toks))
                    for (cl, ft, ob, ex) in vs:
                        acc.fail(c, cl, ft, ob, ex)
                acc.exhaustive_parts.append('all paths of %d tokens%s' % (n, '' if spec['first'] is None else ' starting with %r' % spec['first']))
            return

        def chk(c: Dict[str, Any]) -> List[Any]:
            vs, info = evaluate(c)
            if info.get('dontcare'):
                acc.dontcare += 1
            acc.case(c, bool(info['outside_existing'] or info['code'] == 200),
                     labels=(info.get('dontcare') or ('inside' if info['inside'] else 'outside'), 'code:%s' % info['code'], 'sampled'), key=''.join(c['tokens']))
            return vs
        strat = st.fixed_dictionaries({'tokens': st.lists(st.sampled_from(TOKENS), min_size=5, max_size=12),
                                       'mcl': st.sampled_from([0, 20, 10 ** 6]), 'with_query': st.booleans()})
        hyp.drive(strat, chk, acc, max_examples=spec['examples'], seed=seed)
    finally:
        if _T.get('pid') == os.getpid():
            shutil.rmtree(_T.pop('top'), ignore_errors=True)
            _T.pop('pid', None)
            _FLAGS.clear()
