"""C04 - each request on a persistent connection is answered in order by the right origin.

Histories of 1..5 requests on one client connection for three roles (forward proxy with one or several
origins; built-in web server with a route plugin, optionally ending in a static/404 reply that legitimately closes;
reverse proxy with one or several routes/upstreams), keep-alive or pipelined, with every packing of requests into
segments (one per segment, several per segment, split anywhere) and a generated interleaving with the origins.
Oracle: reactive origins tag every response with (origin, serial, request line).  The client must parse exactly one
response per request, in order, response i carrying the tag of the origin/route request i names; every origin saw
exactly the requests that name it, in order; no EOF before the client closes unless a response announced close.
A quiescent stall with an unanswered complete request, or worker death, violates "exactly one response".
"""
from typing import Any, Dict, List, Optional, Tuple

from hypothesis import strategies as st

from vf.core import hyp
from vf.gens import http as G
from vf.harness import k as K
from vf.harness.peers import ReactiveOrigin, ReactiveClient
from vf.refs import http_ref as H
from vf.props.c01 import stream

ID = 'C04'
LEVEL = 'exploration'
RULE = ('Hypothesis draws the role (forward / web / reverse), 1..5 requests (GET or POST with a Content-Length or chunked (1..3 chunks) body; same or '
        'different origins/routes), keep-alive vs pipelined, per-request cut sets, a packing of segments (several requests '
        'per segment), and the schedule. Non-trivial: >= 2 requests AND (>= 2 requests in one segment OR a request split '
        'across segments OR two distinct origins/routes); distinct by case hash.')
ASSUMPTIONS = ['AF_UNIX pairs stand in for TCP', 'message framing of what peers read is decided by vf/refs/http_ref.message_length']

_FLAGS: Dict[str, Any] = {}
ORIGINS = {'a': (b'a.test', None), 'b': (b'b.test', 8080)}
ROUTES = {'a': (r'/ra/', b'http://ua.test:8001/ta'), 'b': (r'/rb/', b'http://ub.test/tb')}


def _web_plugin() -> Any:
    from vf.props.c07 import route_plugin
    return route_plugin()


def _reverse_plugin() -> Any:
    if 'rp' in _FLAGS:
        return _FLAGS['rp']
    from proxy.http.server import ReverseProxyBasePlugin

    class VfReverse(ReverseProxyBasePlugin):
        def routes(self) -> List[Any]:
            # two routes that lead to upstreams and one dynamic route the plugin answers by itself
            return [(ROUTES['a'][0], [ROUTES['a'][1]]), (ROUTES['b'][0], [ROUTES['b'][1]]), r'/rl/']

        def handle_route(self, request: Any, pattern: Any) -> Any:
            body = b'literal;path=' + (request.path or b'')
            return memoryview(b'HTTP/1.1 200 OK\r\nContent-Length: %d\r\nX-Literal: 1\r\n\r\n' % len(body) + body)
    _FLAGS['rp'] = VfReverse
    return VfReverse


def flags_for(role: str, pool: bool = False, events: bool = False) -> Any:
    if events:
        key = role + '+events' + ('+pool' if pool and role == 'forward' else '')
        if role == 'web':
            from vf.props import c07
            if _FLAGS.get(key + ':dir') != c07.static_dir():      # the static directory is per process and per shard
                _FLAGS.pop(key, None)
                _FLAGS[key + ':dir'] = c07.static_dir()
        if key not in _FLAGS:
            base = flags_for(role, pool)
            argv = {'forward': ['--threadless'] + (['--enable-conn-pool'] if pool else []),
                    'web': ['--threadless', '--enable-web-server', '--enable-static-server', '--static-server-dir', base.static_server_dir],
                    'reverse': ['--threadless', '--enable-reverse-proxy']}[role]
            plugins = {'forward': [], 'web': [_web_plugin()], 'reverse': [_reverse_plugin()]}[role]
            _FLAGS[key] = K.make_flags(argv + ['--enable-events'], plugins=plugins)
        return _FLAGS[key]
    if role == 'forward' and pool:
        if 'forward-pooled' not in _FLAGS:
            _FLAGS['forward-pooled'] = K.make_flags(['--threadless', '--enable-conn-pool'])
        return _FLAGS['forward-pooled']
    if role == 'web':
        from vf.props import c07
        if _FLAGS.get('web_dir') != c07.static_dir():      # the static dir is per process
            _FLAGS.pop('web', None)
            _FLAGS['web_dir'] = c07.static_dir()
    if role not in _FLAGS:
        if role == 'forward':
            _FLAGS[role] = K.make_flags(['--threadless'])
        elif role == 'web':
            from vf.props import c07
            _FLAGS[role] = K.make_flags(['--threadless', '--enable-web-server', '--enable-static-server',
                                         '--static-server-dir', c07.static_dir()], plugins=[_web_plugin()])
        else:
            _FLAGS[role] = K.make_flags(['--threadless', '--enable-reverse-proxy'], plugins=[_reverse_plugin()])
    return _FLAGS[role]


def render_request(role: str, r: Dict[str, Any], i: int) -> bytes:
    body = stream(r['body'], i) if r.get('body') else b''
    method = b'POST' if r.get('body') else b'GET'
    if role == 'forward':
        host, port = ORIGINS[r['to']]
        auth = host + (b':%d' % port if port else b'')
        target = b'http://' + auth + b'/p%d' % i
        hosth = auth
    elif role == 'web':
        kind = r['to']
        if kind == 'route':
            target = b'/gen/%d/%d/%d' % (r['size'], i, r.get('pieces', 1))
        elif kind == 'static':
            from vf.props import c07
            path, _ = c07.static_file(r['size'], i)
            target = path.encode()
        else:
            target = b'/nothing-here-%d' % i
        hosth = b'localhost'
    else:
        target = {'a': b'/ra/', 'b': b'/rb/', 'lit': b'/rl/'}[r['to']] + b'p%d' % i
        hosth = b'front.test'
    head = method + b' ' + target + b' HTTP/1.1\r\n' + (b'Host: ' + hosth + b'\r\n' if not r.get('no_host') else b'') + b'X-Req: %d\r\n' % i
    if r.get('obs_text'):
        head += b'X-Note: caf\xe9 na\xefve\r\n'      # obs-text octets (latin-1), valid in a field value
    if body and r.get('chunked'):
        # the same body in chunked framing (1..3 chunks): every request of the connection has a decoder state of its own
        from vf.refs import chunk_ref
        k = min(int(r['chunked']), len(body))
        sizes = [len(body) // k] * (k - 1) + [len(body) - (len(body) // k) * (k - 1)]
        return head + b'Transfer-Encoding: chunked\r\n\r\n' + chunk_ref.encode(body, [x for x in sizes if x > 0])
    if body:
        head += b'Content-Length: %d\r\n' % len(body)
    return head + b'\r\n' + body


def run_case(c: Dict[str, Any]) -> Dict[str, Any]:
    role = c['role']
    flags = flags_for(role, bool(c.get('pool')), bool(c.get('events')))
    w = K.World(flags, max_iters=30000)
    raws = [render_request(role, r, i) for i, r in enumerate(c['requests'])]
    reqs = [(raw, [x for x in r.get('cuts', []) if 0 < x < len(raw)]) for raw, r in zip(raws, c['requests'])]
    client = ReactiveClient('client', reqs, pipelined=c['pipelined'], packing=c.get('packing') or None)
    # per-send caps on the proxy's socket towards the client: several queued responses meet short and refused writes
    w.add_client(client, plan={'caps': c.get('caps_client')} if c.get('caps_client') else None)
    origins: Dict[str, ReactiveOrigin] = {}

    def fac(world: K.World, addr: Tuple[str, int], idx: int) -> Tuple[K.Peer, Optional[Dict[str, Any]]]:
        name = '%s:%d#%d' % (addr[0], addr[1], idx)
        o = ReactiveOrigin(name, responder=lambda o_, raw, n: _tag(addr, n, raw))
        o.addr = addr     # type: ignore[attr-defined]
        origins[name] = o
        world.order.append(name)
        return o, None
    w.origin_factory = fac
    w.order = ['client']
    w.schedule = c['schedule']
    w.run_local()
    return {'world': w, 'client': client, 'origins': origins, 'raws': raws}


def _reqid(raw: bytes) -> bytes:
    for ln in raw.split(b'\r\n\r\n', 1)[0].split(b'\r\n')[1:]:
        if ln.lower().startswith(b'x-req:'):
            return ln.split(b':', 1)[1].strip()
    return b'?'


def _tag(addr: Tuple[str, int], serial: int, raw: bytes) -> bytes:
    # a new upstream connection per request is legitimate (reverse proxy), so responses are tagged by the request's
    # own id (echoed from its X-Req header), not by a per-connection serial
    line = raw.split(b'\r\n', 1)[0]
    body = b'origin=%s:%d;req=%s;line=%s;' % (addr[0].encode(), addr[1], _reqid(raw), line)
    return b'HTTP/1.1 200 OK\r\nContent-Length: %d\r\n\r\n' % len(body) + body


def expected_upstream(role: str, r: Dict[str, Any], i: int) -> Optional[Tuple[str, int, bytes]]:
    """(host, port, request line the origin should see) or None when the proxy answers itself"""
    method = b'POST' if r.get('body') else b'GET'
    if role == 'forward':
        host, port = ORIGINS[r['to']]
        return host.decode(), port or 80, method + b' /p%d HTTP/1.1' % i
    if role == 'reverse':
        if r['to'] == 'a':
            return 'ua.test', 8001, method + b' /ta HTTP/1.1'
        if r['to'] == 'lit':
            return None        # answered by the route plugin itself
        return 'ub.test', 80, method + b' /tb HTTP/1.1'
    return None


def evaluate(c: Dict[str, Any]) -> Tuple[List[Any], Dict[str, Any]]:
    r = run_case(c)
    w: K.World = r['world']
    client: ReactiveClient = r['client']
    role = c['role']
    n = len(c['requests'])
    tos = [q['to'] for q in c['requests']]
    multi_seg = any(len([x for x in q.get('cuts', []) if 0 < x < len(raw)]) > 0 for q, raw in zip(c['requests'], r['raws']))
    packed = bool(c.get('packing')) and c['pipelined'] and any(p > 1 for p in c['packing'])
    feat = {'role': role, 'pipelined': c['pipelined'], 'n': min(n, 3), 'distinct_targets': len(set(tos)) > 1,
            'events': bool(c.get('events')), 'odd_request': any(q.get('no_host') or q.get('obs_text') for q in c['requests']),
            'packed': packed}
    info = {'n': n, 'multi_seg': multi_seg, 'packed': packed, 'distinct': len(set(tos)) > 1}
    out: List[Any] = []
    try:
        if w.budget_exhausted:
            info['inconclusive'] = True
            return out, info
        if w.worker_died:
            return [('worker-died', dict(feat, exc=(w.exceptions or [('', 'loop-stopped')])[0][1].split(':')[0]), w.exceptions[:1], None)], info
        # how many requests may legitimately be answered: up to and including the first that closes (static / 404)
        answerable = n
        if role == 'web':
            for i, q in enumerate(c['requests']):
                if q['to'] != 'route':
                    answerable = i + 1
                    break
        got = bytes(client.inbuf)
        p = H.parse_responses(got, [b'GET'] * answerable, eof=client.eof_iter is not None)
        if not p.ok:
            return [('client-received-malformed-stream', feat, repr(p), None)], info
        if len(p.messages) < answerable or p.partial:
            return [('missing-response', dict(feat, answered=min(len(p.messages), 2), upstream_connects=min(len(w.connect_log), 2)),
                     {'answered': len(p.messages), 'partial': p.partial is not None, 'client_eof': client.eof_iter,
                      'requests_sent': client.seg_i, 'connects': [x['addr'] for x in w.connect_log]},
                     {'responses': answerable})], info
        if len(p.messages) > answerable or p.leftover:
            out.append(('extra-response', feat, {'n': len(p.messages), 'leftover': p.leftover[:60]}, answerable))
        # per request: the right producer
        serial: Dict[Tuple[str, int], int] = {}
        for i in range(answerable):
            q = c['requests'][i]
            m = p.messages[i]
            eu = expected_upstream(role, q, i)
            if eu is not None:
                host, port, line = eu
                want = b'origin=%s:%d;req=%d;line=%s;' % (host.encode(), port, i, line)
                if m['body'] != want:
                    out.append(('response-from-wrong-origin-or-out-of-order', dict(feat, index=min(i, 2)),
                                {'i': i, 'body': m['body'][:120]}, {'body': want}))
                    break
            elif role == 'reverse':
                want_lit = b'literal;path=/rl/p%d' % i
                if m['code'] != 200 or m['body'] != want_lit:
                    out.append(('wrong-literal-reply', dict(feat, index=min(i, 2)), {'i': i, 'code': m['code'], 'body': m['body'][:80]}, {'body': want_lit}))
                    break
            else:
                if q['to'] == 'route':
                    want_body, code = stream(q['size'], i), 200
                elif q['to'] == 'static':
                    from vf.props import c07
                    want_body, code = c07.static_file(q['size'], i)[1], 200
                else:
                    want_body, code = None, 404
                body = m['body']
                if dict((k_.lower(), v) for k_, v in m['headers']).get(b'content-encoding') == b'gzip':
                    body = H.gunzip(body)
                if m['code'] != code or (want_body is not None and body != want_body):
                    out.append(('wrong-web-reply', dict(feat, index=min(i, 2)), {'i': i, 'code': m['code'], 'len': len(body)},
                                {'code': code, 'len': None if want_body is None else len(want_body)}))
                    break
        # each origin saw exactly the requests naming it, in order
        if role in ('forward', 'reverse') and not out:
            seen: Dict[Tuple[str, int], List[bytes]] = {}
            for o in r['origins'].values():
                seen.setdefault(o.addr, [])     # type: ignore[attr-defined]
                seen[o.addr] += [_reqid(x) + b' ' + x.split(b'\r\n', 1)[0] for x in o.requests]     # type: ignore[attr-defined]
                if o.unparsed or o.bad:
                    out.append(('origin-received-partial-or-garbage', feat, {'origin': o.name, 'bytes': o.unparsed[:80], 'bad': o.bad}, None))
            wantseen: Dict[Tuple[str, int], List[bytes]] = {}
            for i, q in enumerate(c['requests']):
                eu2 = expected_upstream(role, q, i)
                if eu2 is None:
                    continue
                host, port, line = eu2
                wantseen.setdefault((host, port), []).append(b'%d ' % i + line)
            if seen != wantseen and not out:
                out.append(('origins-saw-wrong-requests', feat, {'%s:%d' % k_: v for k_, v in seen.items()},
                            {'%s:%d' % k_: v for k_, v in wantseen.items()}))
        # connection stays usable
        closes = role == 'web' and answerable <= n and c['requests'][answerable - 1]['to'] != 'route'
        if not out and not closes and client.eof_iter is not None:
            out.append(('connection-closed-by-proxy', feat, {'eof_iter': client.eof_iter}, 'open until one side closes'))
        return out, info
    finally:
        w.teardown()


def replay(case: Dict[str, Any]) -> List[Dict[str, Any]]:
    vs, _ = evaluate(case)
    return [{'property': ID, 'clause': cl, 'features': ft, 'case': case, 'observed': ob, 'expected': ex} for (cl, ft, ob, ex) in vs]


# -- generation -----------------------------------------------------------------------------------

@st.composite
def cases(draw: Any, role: str) -> Dict[str, Any]:
    n = draw(st.integers(1, 5))
    reqs = []
    for i in range(n):
        q: Dict[str, Any] = {}
        if role == 'web':
            last = i == n - 1
            q['to'] = draw(st.sampled_from(['route', 'route', 'route', 'static', 'nothing'])) if last else 'route'
            q['size'] = draw(st.sampled_from([0, 1, 19, 20, 21, 300, 5000, 70000]))
            q['pieces'] = draw(st.sampled_from([1, 1, 2, 5]))
        else:
            q['to'] = draw(st.sampled_from(['a', 'a', 'b'] + (['lit'] if role == 'reverse' else [])))
        q['body'] = draw(st.sampled_from([0, 0, 0, 1, 10, 300, 70000]))
        if q['body'] and draw(st.integers(0, 2)) == 0:
            q['chunked'] = draw(st.integers(1, 3))
        if role != 'forward' and draw(st.integers(0, 7)) == 0:
            q['no_host'] = True        # origin-form request without a Host field (what an HTTP/1.0-style client sends)
        if draw(st.integers(0, 7)) == 0:
            q['obs_text'] = True
        q['cuts'] = draw(st.one_of(st.just([]), st.just([]), st.lists(st.integers(1, 200), min_size=1, max_size=4)))
        reqs.append(q)
    pipelined = draw(st.booleans())
    c = {'role': role, 'requests': reqs, 'pipelined': pipelined, 'pool': role == 'forward' and draw(st.integers(0, 3)) == 0,
         'events': draw(st.integers(0, 3)) == 0,
         'caps_client': draw(st.lists(st.sampled_from([0, 1, 2, 7, 64, 1460, None]), min_size=1, max_size=6).filter(lambda l: any(x != 0 for x in l)))
         if draw(st.integers(0, 2)) == 0 else None,
         'packing': draw(st.lists(st.integers(1, 4), min_size=1, max_size=4)) if pipelined and draw(st.booleans()) else [],
         'schedule': draw(st.lists(st.integers(0, 3), max_size=40))}
    return c


def shards(tier: str) -> List[Dict[str, Any]]:
    q = tier == 'quick'
    out = []
    for role, k_ in (('forward', 6), ('web', 5), ('reverse', 5)):
        for i in range(k_ if q else 2 * k_):
            out.append({'name': '%s-%d' % (role, i), 'role': role, 'examples': 220 if q else 4000})
    return out


def run_shard(spec: Dict[str, Any], seed: int, acc: Any) -> None:
    def chk(c: Dict[str, Any]) -> List[Any]:
        vs, info = evaluate(c)
        labs = ['role:' + c['role'], 'pipelined' if c['pipelined'] else 'keep-alive', 'n:%d' % info['n']]
        if sum(1 for q in c['requests'] if q.get('chunked')) >= 2:
            labs.append('two-or-more-chunked-requests')
        if c.get('pool'):
            labs.append('conn-pool')
        if c.get('events'):
            labs.append('events-enabled')
        if c.get('caps_client'):
            labs.append('short-writes-towards-client')
        if any(q.get('no_host') for q in c['requests']):
            labs.append('request-without-host-field')
        if any(q.get('obs_text') for q in c['requests']):
            labs.append('obs-text-header-value')
        if info['packed']:
            labs.append('several-requests-per-segment')
        if info['multi_seg']:
            labs.append('request-split-across-segments')
        if info['distinct']:
            labs.append('distinct-origins-or-routes')
        if info.get('inconclusive'):
            acc.dontcare += 1
        nt = info['n'] >= 2 and (info['packed'] or info['multi_seg'] or info['distinct'])
        acc.case(c, nt, labels=labs)
        return vs
    try:
        hyp.drive(cases(spec['role']), chk, acc, max_examples=spec['examples'], seed=seed)
    finally:
        from vf.props import c07
        c07.cleanup_static()
        _FLAGS.pop('web', None)
