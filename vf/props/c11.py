"""C11 - TLS interception issues a valid per-host certificate and never trusts a bad upstream.

Harness L: the proxy performs blocking TLS handshakes inside its loop, so peers must run concurrently.  A real
LocalFdExecutor runs in a thread; origin TLS servers run in threads on loopback; the client is the check thread.
Fixture (openssl, once per shard): proxy CA + signing key; an "origin CA" that is the proxy's only trust store
(--ca-file); origin certificates: trusted + right names, self-signed, trusted + wrong name, expired.
CONNECT hosts are names (mapped to loopback by rebinding socket.getaddrinfo in the check process), `localhost`, and
IP literals.  Both settings of --insecure-tls-interception; a plugin whose do_intercept opts out for `optout.*`;
request / response payloads from the HTTP generators, written in several TLS records; cold and warm cert cache.
Oracle
  good origin, intercepted : a client trusting ONLY the proxy CA, with check_hostname on and SNI = host, completes the
                             handshake (so the leaf names the host and chains to the CA); what the origin decrypts is
                             the client's request (method, origin-form target, version, headers, body); the client gets
                             the origin's response bytes.
  bad origin, secure mode  : no application data reaches the origin and none reaches the client.
  bad origin, insecure mode: relayed like a good origin.
  opt-out                  : the client sees the ORIGIN's certificate and both directions are relayed byte for byte.
A deadline (15 s) hit is inconclusive, never a violation.
"""
import os
import ssl
import time
import queue
import socket
import shutil
import tempfile
import threading
import subprocess
from typing import Any, Dict, List, Optional, Tuple

from hypothesis import strategies as st

from vf.core import hyp
from vf.gens import http as G
from vf.refs import http_ref as H

ID = 'C11'
LEVEL = 'exploration'
RULE = ('Hypothesis draws (origin certificate situation, CONNECT host spelling (names, IPv4/IPv6 literals, a long name, `localhost` also as `localhost.` and `LOCALHOST`), insecure switch, opt-out, request spec, response '
        'size, TLS write segmentation); each is a full live conversation. Non-trivial: a full handshake + >= 1 request through an '
        'intercepted session, or a refused bad origin; distinct by case hash.')
ASSUMPTIONS = ['OpenSSL / the ssl module implement TLS and certificate verification correctly', 'deadline 15 s per conversation; hitting it is inconclusive',
               'socket.getaddrinfo is rebound in the check process so that *.test resolves to 127.0.0.1']

DEADLINE = 15.0
_FX: Dict[str, Any] = {}
LONG_NAME = 'l' + 'o' * 40 + 'ng.' + 'sub' * 8 + '.good.test'      # 78 octets: longer than an X.509 commonName may be (64), a valid DNS name
FAIL_NAME = 'genfail.good.test'      # certificate generation for this host fails (a directory sits where its key file would go)
# other spellings of one host (fully qualified with a trailing dot, upper case): each CONNECT spelling must be presented a
# certificate naming THAT spelling, whatever was issued for the others before
GOOD_NAMES = ['good.test', 'a.good.test', 'localhost', 'optout.good.test', LONG_NAME, FAIL_NAME, 'localhost.', 'LOCALHOST']


def sh(*cmd: str, **kw: Any) -> None:
    # key generation on a loaded machine can be slow: generous limit, one retry
    for attempt in (0, 1):
        try:
            subprocess.run(list(cmd), check=True, capture_output=True, timeout=600, **kw)
            return
        except subprocess.TimeoutExpired:
            if attempt:
                raise


def fixture() -> Dict[str, Any]:
    if _FX.get('pid') == os.getpid():
        return _FX
    d = tempfile.mkdtemp(prefix='vf-c11-')
    P = lambda n: os.path.join(d, n)     # noqa: E731
    # proxy CA + signing key
    sh('openssl', 'genrsa', '-out', P('ca-key.pem'), '2048')
    sh('openssl', 'req', '-new', '-x509', '-sha256', '-days', '30', '-subj', '/CN=vf proxy CA', '-key', P('ca-key.pem'), '-out', P('ca-cert.pem'),
       '-addext', 'basicConstraints=critical,CA:TRUE')
    sh('openssl', 'genrsa', '-out', P('ca-signing-key.pem'), '2048')
    # origin CA (the proxy's only trust store)
    sh('openssl', 'ecparam', '-genkey', '-name', 'prime256v1', '-noout', '-out', P('oca-key.pem'))
    sh('openssl', 'req', '-new', '-x509', '-sha256', '-days', '30', '-subj', '/CN=vf origin CA', '-key', P('oca-key.pem'), '-out', P('oca-cert.pem'),
       '-addext', 'basicConstraints=critical,CA:TRUE')

    def leaf(name: str, cn: str, san: str, signer: Optional[str], extra: List[str]) -> None:
        sh('openssl', 'ecparam', '-genkey', '-name', 'prime256v1', '-noout', '-out', P(name + '-key.pem'))
        if signer is None:
            sh('openssl', 'req', '-new', '-x509', '-sha256', '-days', '30', '-subj', '/CN=' + cn, '-key', P(name + '-key.pem'),
               '-out', P(name + '-cert.pem'), '-addext', 'subjectAltName=' + san)
            return
        sh('openssl', 'req', '-new', '-subj', '/CN=' + cn, '-key', P(name + '-key.pem'), '-out', P(name + '.csr'))
        with open(P(name + '.ext'), 'w') as f:
            f.write('subjectAltName=' + san + '\n')
        sh('openssl', 'x509', '-req', '-in', P(name + '.csr'), '-CA', P(signer + '-cert.pem'), '-CAkey', P(signer + '-key.pem'), '-CAcreateserial',
           '-extfile', P(name + '.ext'), '-out', P(name + '-cert.pem'), *extra)
    all_san = ','.join(['DNS:' + n for n in GOOD_NAMES] + ['IP:127.0.0.1', 'IP:::1'])
    leaf('good', 'good.test', all_san, 'oca', ['-days', '30'])
    leaf('selfsigned', 'good.test', all_san, None, [])
    # a CA that is in the PLATFORM trust store of this process (SSL_CERT_FILE) but not in the proxy's --ca-file: an origin it
    # signed is correctly named and valid, and still not to be trusted by a proxy told to trust `--ca-file` only
    sh('openssl', 'ecparam', '-genkey', '-name', 'prime256v1', '-noout', '-out', P('sysca-key.pem'))
    sh('openssl', 'req', '-new', '-x509', '-sha256', '-days', '30', '-subj', '/CN=vf platform CA', '-key', P('sysca-key.pem'), '-out', P('sysca-cert.pem'),
       '-addext', 'basicConstraints=critical,CA:TRUE')
    leaf('osca', 'good.test', all_san, 'sysca', ['-days', '30'])
    # a trusted origin whose certificate subject carries characters that are special in openssl's -subj syntax
    # (e.g. the Danish company form "A/S"): interception copies the origin's subject into the certificate it issues
    sh('openssl', 'ecparam', '-genkey', '-name', 'prime256v1', '-noout', '-out', P('oddsubject-key.pem'))
    sh('openssl', 'req', '-new', '-subj', '/C=DK/O=ACME A\\/S, Inc.+Co=1/OU=R\\/D/CN=good.test', '-key', P('oddsubject-key.pem'), '-out', P('oddsubject.csr'))
    with open(P('oddsubject.ext'), 'w') as f:
        f.write('subjectAltName=' + all_san + '\n')
    sh('openssl', 'x509', '-req', '-in', P('oddsubject.csr'), '-CA', P('oca-cert.pem'), '-CAkey', P('oca-key.pem'), '-CAcreateserial',
       '-extfile', P('oddsubject.ext'), '-out', P('oddsubject-cert.pem'), '-days', '30')
    os.environ['SSL_CERT_FILE'] = P('sysca-cert.pem')
    os.environ.pop('SSL_CERT_DIR', None)
    leaf('wrongname', 'other.test', 'DNS:other.test', 'oca', ['-days', '30'])
    # an expired certificate: `openssl x509 -not_before/-not_after` needs OpenSSL >= 3.4, `openssl ca -startdate/-enddate` works
    # with every version (the sandbox has 3.0 in /usr/bin and 3.5 in another PATH entry)
    sh('openssl', 'ecparam', '-genkey', '-name', 'prime256v1', '-noout', '-out', P('expired-key.pem'))
    sh('openssl', 'req', '-new', '-subj', '/CN=good.test', '-key', P('expired-key.pem'), '-out', P('expired.csr'))
    with open(P('expired.ext'), 'w') as f:
        f.write('subjectAltName=' + all_san + '\n')
    os.makedirs(P('ca-newcerts'))
    open(P('ca-index.txt'), 'w').close()
    with open(P('ca-serial'), 'w') as f:
        f.write('1000\n')
    with open(P('ca.cnf'), 'w') as f:
        f.write('[ ca ]\ndefault_ca = vf\n[ vf ]\nnew_certs_dir = %s\ndatabase = %s\nserial = %s\ndefault_md = sha256\npolicy = pol\n'
                'unique_subject = no\ncopy_extensions = none\n[ pol ]\ncommonName = supplied\n' % (P('ca-newcerts'), P('ca-index.txt'), P('ca-serial')))
    sh('openssl', 'ca', '-batch', '-notext', '-config', P('ca.cnf'), '-cert', P('oca-cert.pem'), '-keyfile', P('oca-key.pem'), '-in', P('expired.csr'),
       '-out', P('expired-cert.pem'), '-startdate', '20200101000000Z', '-enddate', '20200201000000Z', '-extfile', P('expired.ext'))
    os.makedirs(P('certs'))
    os.makedirs(os.path.join(P('certs'), FAIL_NAME + '.pub'))      # openssl cannot write the key pair for this host: generation fails
    _FX.clear()
    _FX.update(pid=os.getpid(), dir=d, P=P, origins={}, executors={})
    # name resolution for *.test
    if not getattr(socket, '_vf_gai', None):
        real = socket.getaddrinfo

        def gai(host: Any, port: Any, *a: Any, **k: Any) -> Any:
            if isinstance(host, str) and (host.endswith('.test') or host in ('localhost.', 'LOCALHOST')):      # (the origins listen on 127.0.0.1)
                host = '127.0.0.1'
            return real(host, port, *a, **k)
        socket._vf_gai = real     # type: ignore[attr-defined]
        socket.getaddrinfo = gai     # type: ignore[assignment]
    return _FX


class Origin(threading.Thread):
    """TLS origin on loopback: counts decrypted application bytes, answers every complete request."""

    def __init__(self, kind: str, fx: Dict[str, Any], family: int) -> None:
        super().__init__(daemon=True)
        self.kind = kind
        ctx = ssl.SSLContext(ssl.PROTOCOL_TLS_SERVER)
        ctx.load_cert_chain(fx['P'](kind + '-cert.pem'), fx['P'](kind + '-key.pem'))
        self.ctx = ctx
        self.ls = socket.socket(family, socket.SOCK_STREAM)
        self.ls.setsockopt(socket.SOL_SOCKET, socket.SO_REUSEADDR, 1)
        self.ls.bind(('::1' if family == socket.AF_INET6 else '127.0.0.1', 0))
        self.ls.listen(16)
        self.port = self.ls.getsockname()[1]
        self.lock = threading.Lock()
        self.conns: List[Dict[str, Any]] = []
        self.response_size = 0
        self.stop = False

    def run(self) -> None:
        self.ls.settimeout(0.2)
        while not self.stop:
            try:
                s, _ = self.ls.accept()
            except socket.timeout:
                continue
            except OSError:
                return
            threading.Thread(target=self.serve, args=(s,), daemon=True).start()

    def serve(self, s: socket.socket) -> None:
        rec = {'handshake': False, 'app_bytes': b'', 'sent': b'', 'error': None}
        with self.lock:
            self.conns.append(rec)
        s.settimeout(DEADLINE)
        try:
            t = self.ctx.wrap_socket(s, server_side=True)
            rec['handshake'] = True
            buf = b''
            while True:
                try:
                    chunk = t.recv(65536)
                except socket.timeout:
                    break
                if not chunk:
                    break
                buf += chunk
                rec['app_bytes'] = buf
                done = rec.get('consumed', b'')
                rest = buf[len(done):]
                try:
                    n = H.message_length(rest)
                except Exception:
                    n = None
                if n is not None:
                    rec['consumed'] = done + rest[:n]
                    body = b'origin-kind=' + self.kind.encode() + b';' + bytes((i * 31 + 7) & 0xFF for i in range(self.response_size))
                    resp = b'HTTP/1.1 200 OK\r\nContent-Length: %d\r\nX-Origin: %s\r\n\r\n' % (len(body), self.kind.encode()) + body
                    rec['sent'] += resp      # recorded before it can possibly be observed by the client
                    t.sendall(resp)
            try:
                t.close()
            except OSError:
                pass
        except (ssl.SSLError, OSError) as e:
            rec['error'] = '%s: %s' % (type(e).__name__, e)
            try:
                s.close()
            except OSError:
                pass


def origin_for(kind: str, v6: bool) -> Origin:
    fx = fixture()
    key = (kind, v6)
    if key not in fx['origins']:
        o = Origin(kind, fx, socket.AF_INET6 if v6 else socket.AF_INET)
        o.start()
        fx['origins'][key] = o
    return fx['origins'][key]


def executor_for(insecure: bool) -> Any:
    fx = fixture()
    ex = fx['executors'].get(insecure)
    if ex is not None and ex['thread'].is_alive():
        return ex
    from proxy.common.flag import FlagParser
    from proxy.common.backports import NonBlockingQueue
    from proxy.core.work.fd.local import LocalFdExecutor
    from proxy.http.proxy import HttpProxyBasePlugin
    import logging

    class OptOut(HttpProxyBasePlugin):
        def do_intercept(self, request: Any) -> bool:
            return not (request.host or b'').startswith(b'optout.')
    P = fx['P']
    argv = ['--threadless', '--ca-key-file', P('ca-key.pem'), '--ca-cert-file', P('ca-cert.pem'), '--ca-signing-key-file', P('ca-signing-key.pem'),
            '--ca-cert-dir', P('certs'), '--ca-file', P('oca-cert.pem')] + (['--insecure-tls-interception'] if insecure else [])
    flags = FlagParser.initialize(argv, plugins=[OptOut])
    logging.disable(logging.CRITICAL)
    q = NonBlockingQueue()
    lex = LocalFdExecutor(iid='c11', work_queue=q, flags=flags, event_queue=None)
    th = threading.Thread(target=lex.run, daemon=True)
    th.start()
    ex = {'q': q, 'thread': th, 'ex': lex}
    fx['executors'][insecure] = ex
    return ex


def recv_until(s: Any, pred: Any, deadline: float) -> Tuple[bytes, str]:
    buf = b''
    while time.time() < deadline:
        try:
            s.settimeout(max(0.05, min(1.0, deadline - time.time())))
            chunk = s.recv(65536)
        except (socket.timeout, ssl.SSLWantReadError):
            continue
        except (ssl.SSLError, OSError) as e:
            return buf, 'error:%s' % type(e).__name__
        if not chunk:
            return buf, 'eof'
        buf += chunk
        if pred(buf):
            return buf, 'ok'
    return buf, 'timeout'


def converse(c: Dict[str, Any]) -> Dict[str, Any]:
    fx = fixture()
    v6 = c['host'] == '[::1]'
    origin = origin_for(c['origin'], v6)
    origin.response_size = c['resp_size']
    ex = executor_for(c['insecure'])
    if c.get('cold') and c['host'] != FAIL_NAME:
        # cold certificate cache for this host: what was generated for it earlier (possibly from another origin's certificate) is gone
        hn = c['host'].strip('[]') if c['host'].startswith('[') else c['host']
        for nm in (c['host'], hn):
            for ext in ('pem', 'pub', 'csr'):
                try:
                    os.remove(os.path.join(fx['P']('certs'), '%s.%s' % (nm, ext)))
                except OSError:
                    pass
    n_before = len(origin.conns)
    a, b = socket.socketpair()
    ex['q'].put((a, ('127.0.0.1', 51000)))
    out: Dict[str, Any] = {'stage': 'connect', 'client_app': b'', 'peer_cert': None, 'handshake': None}
    deadline = time.time() + DEADLINE
    host = c['host']
    try:
        b.sendall(b'CONNECT %s:%d HTTP/1.1\r\nHost: %s:%d\r\n\r\n' % (host.encode(), origin.port, host.encode(), origin.port))
        head, st_ = recv_until(b, lambda x: b'\r\n\r\n' in x, deadline)
        out['connect_reply'] = head[:64]
        out['connect_status'] = st_
        if st_ != 'ok' or not head.startswith(b'HTTP/1.1 200'):
            return out
        out['stage'] = 'handshake'
        sni = host.strip('[]')
        optout = host.startswith('optout.')
        ctx = ssl.create_default_context(cafile=fx['P']('oca-cert.pem' if optout else 'ca-cert.pem'))
        ctx.check_hostname = True
        b.settimeout(max(0.5, deadline - time.time()))
        if c.get('split_records'):
            return _converse_split_records(c, b, ctx, sni, out, deadline)
        try:
            t = ctx.wrap_socket(b, server_hostname=sni)
        except (ssl.SSLError, OSError) as e:
            out['handshake'] = 'failed:%s:%s' % (type(e).__name__, getattr(e, 'verify_message', '') or getattr(e, 'reason', ''))
            return out
        out['handshake'] = 'ok'
        cert = t.getpeercert()
        out['peer_cert'] = {'subject': cert.get('subject'), 'issuer': cert.get('issuer'), 'san': cert.get('subjectAltName')}
        out['stage'] = 'request'
        req = G.render(c['req'])
        pos = 0
        for n in c['writes'] + [len(req)]:
            if pos >= len(req):
                break
            t.sendall(req[pos:pos + n])
            pos += n
        resp, st2 = recv_until(t, lambda x: _complete(x), deadline)
        out['client_app'] = resp
        out['response_status'] = st2
        out['stage'] = 'done'
        try:
            t.close()
        except OSError:
            pass
        return out
    except OSError as e:
        out['error'] = '%s: %s' % (type(e).__name__, e)
        return out
    finally:
        try:
            b.close()
        except OSError:
            pass
        # let the origin thread finish recording
        t_end = time.time() + 1.0
        while time.time() < t_end and len(origin.conns) > n_before and origin.conns[-1].get('handshake') and not origin.conns[-1].get('consumed') \
                and out.get('stage') == 'done':
            time.sleep(0.01)
        out['origin_conns'] = [dict(x) for x in origin.conns[n_before:]]
        out['executor_alive'] = ex['thread'].is_alive()


def _converse_split_records(c: Dict[str, Any], b: Any, ctx: Any, sni: str, out: Dict[str, Any], deadline: float) -> Dict[str, Any]:
    """The same conversation with a client whose TLS records reach the proxy in two TCP segments each (a memory-BIO TLS client:
    the record bytes are cut at a drawn offset and the second part follows after a pause), so that the proxy's reads see
    incomplete records and have to come back for the rest."""
    inc, outg = ssl.MemoryBIO(), ssl.MemoryBIO()
    obj = ctx.wrap_bio(inc, outg, server_hostname=sni)
    splits = list(c['split_records'])

    def flush(split: bool) -> None:
        data = outg.read()
        if not data:
            return
        if split and len(data) > 6 and splits:
            k = 1 + splits.pop(0) % (len(data) - 1)
            b.sendall(data[:k])
            time.sleep(0.05)
            b.sendall(data[k:])
        else:
            b.sendall(data)

    def pull() -> bool:
        try:
            chunk = b.recv(65536)
        except socket.timeout:
            return False
        except OSError:
            return False
        if not chunk:
            return False
        inc.write(chunk)
        return True
    try:
        while True:
            try:
                obj.do_handshake()
                break
            except ssl.SSLWantReadError:
                flush(False)
                if time.time() > deadline or not pull():
                    out['handshake'] = 'failed:eof-or-timeout:'
                    return out
        flush(False)
    except ssl.SSLError as e:
        out['handshake'] = 'failed:%s:%s' % (type(e).__name__, getattr(e, 'verify_message', '') or getattr(e, 'reason', ''))
        return out
    out['handshake'] = 'ok'
    cert = obj.getpeercert()
    out['peer_cert'] = {'subject': cert.get('subject'), 'issuer': cert.get('issuer'), 'san': cert.get('subjectAltName')}
    out['stage'] = 'request'
    req = G.render(c['req'])
    pos = 0
    for n in c['writes'] + [len(req)]:
        if pos >= len(req):
            break
        obj.write(req[pos:pos + n])
        pos += n
        flush(True)
    resp = b''
    status = 'timeout'
    while time.time() < deadline:
        try:
            chunk = obj.read(65536)
            if not chunk:
                status = 'eof'
                break
            resp += chunk
            if _complete(resp):
                status = 'ok'
                break
        except ssl.SSLWantReadError:
            if not pull():
                status = 'eof'
                break
        except ssl.SSLError as e:
            status = 'error:%s' % type(e).__name__
            break
    out['client_app'] = resp
    out['response_status'] = status
    out['stage'] = 'done'
    return out


def _complete(x: bytes) -> bool:
    try:
        return H.message_length(x) is not None
    except Exception:
        return False


def _worker_blocked_at(insecure: bool) -> Optional[str]:
    import sys
    ex = _FX.get('executors', {}).get(insecure)
    if ex is None or not ex['thread'].is_alive():
        return None

    def sample() -> Optional[str]:
        fr = sys._current_frames().get(ex['thread'].ident)
        inner = None
        while fr is not None:
            fn = fr.f_code.co_filename
            if '/proxy/' in fn and '/vf/' not in fn:
                inner = '%s:%d' % (fn.split('/proxy/', 1)[1], fr.f_lineno)
                break
            fr = fr.f_back
        return inner
    a = sample()
    time.sleep(0.7)
    b_ = sample()
    # the idle loop sits in core/work/threadless.py (selector.select / asyncio); anything else, unchanged over 0.7 s, is a block
    if a and a == b_ and not a.startswith('core/work/threadless.py'):
        return a
    return None


def evaluate(c: Dict[str, Any]) -> Tuple[List[Any], Dict[str, Any]]:
    r = converse(c)
    bad = c['origin'] not in ('good', 'oddsubject')
    optout = c['host'].startswith('optout.')
    hostkind = 'ipv4' if c['host'][0].isdigit() else 'ipv6' if c['host'].startswith('[') else 'name'
    feat = {'origin': c['origin'], 'insecure': c['insecure'], 'optout': optout, 'host': hostkind}
    info = {'nt': False, 'stage': r.get('stage')}
    out: List[Any] = []
    if not r.get('executor_alive', True):
        _FX['executors'].pop(c['insecure'], None)
        return [('worker-died', feat, {'stage': r.get('stage')}, None)], info
    timed_out = r.get('connect_status') == 'timeout' or r.get('response_status') == 'timeout' or 'timeout' in str(r.get('handshake'))
    if timed_out:
        # a deadline says nothing by itself; WHERE the worker thread sits does: blocked inside proxy code (same frame in two
        # samples, not in its selector) means one connection has wedged the worker - e.g. waiting for a lock nobody releases
        where = _worker_blocked_at(c['insecure'])
        if where:
            _FX['executors'].pop(c['insecure'], None)      # this executor is lost; later cases get a fresh one
            return [('worker-blocked-inside-proxy-code', dict(feat, where=where.split(':')[0]), {'stage': r.get('stage'), 'at': where}, 'event loop running')], info
    if c['host'] == FAIL_NAME and not optout:
        # no certificate can be issued for this host: the client must be let go, nothing may be relayed (and the worker goes on)
        info['nt'] = True
        if r.get('handshake') == 'ok':
            out.append(('handshake-completed-without-a-generated-certificate', feat, r.get('peer_cert'), None))
        if b''.join(x.get('app_bytes', b'') for x in r.get('origin_conns', [])):
            out.append(('application-data-relayed-although-interception-failed', feat, None, b''))
        return out, info
    origin_app = b''.join(x.get('app_bytes', b'') for x in r.get('origin_conns', []))
    client_app = r.get('client_app', b'')
    must_refuse = bad and not c['insecure'] and not optout
    if must_refuse:
        info['nt'] = True
        if origin_app:
            out.append(('application-data-reached-an-unverified-origin', feat, origin_app[:80], b''))
        if client_app:
            out.append(('application-data-relayed-from-an-unverified-origin', feat, client_app[:80], b''))
        return out, info
    if timed_out:
        info['inconclusive'] = True
        return out, info
    if optout and bad:
        # opaque tunnel to a bad origin: the CLIENT is the one who verifies; nothing to require of the proxy
        info['dontcare'] = True
        return out, info
    if r.get('handshake') != 'ok':
        out.append(('client-handshake-failed', dict(feat, why=str(r.get('handshake') or r.get('connect_status'))[:60]),
                    {'handshake': r.get('handshake'), 'connect': r.get('connect_reply'), 'origin': [(x.get('handshake'), x.get('error')) for x in r.get('origin_conns', [])]},
                    'verified handshake for SNI=%s' % c['host']))
        return out, info
    info['nt'] = True
    issuer = dict(x[0] for x in (r['peer_cert'] or {}).get('issuer') or ())
    if optout:
        if issuer.get('commonName') != 'vf origin CA':
            out.append(('opt-out-not-honoured', feat, issuer, 'the origin\'s own certificate'))
    elif issuer.get('commonName') != 'vf proxy CA':
        out.append(('leaf-not-issued-by-configured-ca', feat, issuer, 'vf proxy CA'))
    # request identity at the origin
    want_req = G.render(c['req'])
    if optout:
        if origin_app != want_req:
            out.append(('opaque-tunnel-altered-bytes', feat, origin_app[:120], want_req[:120]))
    else:
        pr = H.parse_requests(origin_app)
        if not pr.ok or len(pr.messages) != 1 or pr.partial:
            out.append(('origin-received-malformed-or-incomplete-request', feat, {'h11': repr(pr), 'bytes': origin_app[:160]}, want_req[:160]))
        else:
            m = pr.messages[0]
            req = c['req']
            if (m['method'], m['target'], m['version']) != (req['method'], req['target'], req['version']) or m['body'] != req['body']:
                out.append(('decrypted-request-differs', feat, (m['method'], m['target'], m['version'], m['body'][:40]),
                            (req['method'], req['target'], req['version'], req['body'][:40])))
            _, raw_hs, _ = H.split_head(origin_app)
            drop = {b'content-length', b'transfer-encoding', b'via', b'proxy-connection', b'proxy-authorization'}
            want_h = sorted((h[0], h[1]) for h in G.all_headers(req) if h[0].lower() not in drop)
            got_h = sorted((k_, v) for k_, v in raw_hs if k_.lower() not in drop)
            if want_h != got_h:
                out.append(('decrypted-request-headers-differ', feat, {'extra': [x for x in got_h if x not in want_h][:4],
                                                                     'missing': [x for x in want_h if x not in got_h][:4]}, None))
    sent = b''.join(x.get('sent', b'') for x in r.get('origin_conns', []))
    if client_app != sent:
        out.append(('response-not-returned-intact', feat, {'len': len(client_app), 'head': client_app[:60], 'status': r.get('response_status')},
                    {'len': len(sent), 'head': sent[:60]}))
    return out, info


def replay(case: Dict[str, Any]) -> List[Dict[str, Any]]:
    try:
        vs, _ = evaluate(case)
    finally:
        cleanup()
    return [{'property': ID, 'clause': cl, 'features': ft, 'case': case, 'observed': ob, 'expected': ex} for (cl, ft, ob, ex) in vs]


def cleanup() -> None:
    if _FX.get('pid') == os.getpid():
        for ex in _FX.get('executors', {}).values():
            try:
                ex['q'].put(False)
            except Exception:
                pass
        for o in _FX.get('origins', {}).values():
            o.stop = True
            try:
                o.ls.close()
            except OSError:
                pass
        time.sleep(0.1)
        shutil.rmtree(_FX.get('dir', ''), ignore_errors=True)
        _FX.clear()


@st.composite
def cases(draw: Any) -> Dict[str, Any]:
    origin = draw(st.sampled_from(['good', 'good', 'good', 'selfsigned', 'wrongname', 'expired', 'osca', 'oddsubject']))
    host = draw(st.sampled_from(['good.test', 'a.good.test', 'localhost', 'optout.good.test', '127.0.0.1', '[::1]', LONG_NAME, FAIL_NAME, 'localhost.', 'LOCALHOST', 'localhost']))
    req = draw(G.request_spec(form='origin', host=host.encode(), framings=('none', 'cl', 'chunked'), max_body=300, max_headers=5,
                              versions=(b'HTTP/1.1',), plain_chunked=True))
    raw_len = len(G.render(req))
    return {'origin': origin, 'host': host, 'insecure': draw(st.sampled_from([False, False, True])), 'req': req,
            'resp_size': draw(st.sampled_from([0, 10, 3000, 70000])),
            'writes': draw(st.lists(st.integers(1, max(2, raw_len)), max_size=4)),
            'split_records': draw(st.lists(st.integers(0, 4000), min_size=1, max_size=6)) if draw(st.integers(0, 3)) == 0 else [],
            'cold': draw(st.integers(0, 2)) == 0}


def shards(tier: str) -> List[Dict[str, Any]]:
    q = tier == 'quick'
    return [{'name': 'tls-%d' % i, 'examples': 45 if q else 600} for i in range(8)]


def run_shard(spec: Dict[str, Any], seed: int, acc: Any) -> None:
    if shutil.which('openssl') is None:
        raise RuntimeError('openssl is required for C11')
    try:
        def chk(c: Dict[str, Any]) -> List[Any]:
            vs, info = evaluate(c)
            if info.get('inconclusive'):
                acc.dontcare += 1
                acc.label('inconclusive:deadline')
            if info.get('dontcare'):
                acc.dontcare += 1
            hostkind = 'ipv4' if c['host'][0].isdigit() else 'ipv6' if c['host'].startswith('[') else ('optout' if c['host'].startswith('optout') else 'name-other-spelling' if c['host'] in ('localhost.', 'LOCALHOST') else 'name')
            acc.case(c, info['nt'], labels=(('records-split-across-segments',) if c.get('split_records') else ()) + (('cold-certificate-cache',) if c.get('cold') else ()) + ('origin:' + c['origin'], 'host:' + hostkind, 'insecure' if c['insecure'] else 'secure',
                                           'stage:%s' % info['stage']))
            return vs
        hyp.drive(cases(), chk, acc, max_examples=spec['examples'], seed=seed, shrink=False, max_rounds=6)
    finally:
        cleanup()
