"""C18 - the event bus delivers each event to every current subscriber exactly once, in order.

A real EventDispatcher is fed through an injected queue object whose get() produces the generated history lazily
(through the real EventQueue.subscribe / unsubscribe / publish methods) and sets the shutdown flag at the end, so the
real run() loop - including its "an exception stops the dispatcher" path - is what executes.  Subscribers are real
multiprocessing.Pipe channels (duplex = socketpair, simplex = os.pipe).  History operations: subscribe(id) with a
fresh channel (also while id is subscribed: the id then refers to the new channel), unsubscribe(id) (known, repeated,
unknown), publish(n), break(id) (the receiver closes its end, with or without unread data).
Model: per channel, the list of publishes between its subscribe and its unsubscribe / replacement / breakage.
Each intact channel must yield exactly SUBSCRIBED, that list in order, then UNSUBSCRIBED if it unsubscribed (or
DISPATCHER_SHUTDOWN if still subscribed at the end), nothing else; a broken channel must not disturb the others; run()
must consume the whole history.  All histories up to a bounded length over 2 subscribers are enumerated; longer ones
over 3 subscribers are drawn by Hypothesis; the thorough tier adds a live EventManager thread with a real
multiprocessing.Queue.
"""
import itertools
import threading
import multiprocessing
import queue as queue_mod
from typing import Any, Dict, List, Optional, Tuple

from hypothesis import strategies as st

from vf.core import hyp

ID = 'C18'
LEVEL = 'exploration'
RULE = ('histories = sequences of ops over ids {A,B,(C)}: sub(id, duplex|simplex), unsub(id), pub (event names cycle through the pre-defined work/request/response names and custom ones), burst(k publishes back to back), break(id, unread?); all '
        'histories of length <= 5 (quick) / <= 6 (thorough) over 2 ids enumerated, histories up to 40 ops over 3 ids drawn by '
        'Hypothesis. Non-trivial: >= 2 live subscribers across a publish AND >= 1 unsubscribe or breakage; distinct by history.')
EXPLANATION = 'exhaustive_subspaces lists the history lengths enumerated completely over the 2-subscriber alphabet'
ASSUMPTIONS = ['histories are short enough that no pipe fills (a full pipe would block the dispatcher by design)',
               'in-process delivery of the channel object stands in for pickling it through a multiprocessing.Queue (done for real in the thorough live tier)']

SHORT_OPS: List[Tuple[Any, ...]] = [('sub', 'A', True), ('sub', 'B', False), ('sub', 'B', True, True), ('unsub', 'A'), ('unsub', 'B'), ('pub',), ('burst', 2), ('break', 'A', False),
                                    ('break', 'B', True)]


# event names of the publishes: every pre-defined work/request/response name and names of the publisher's own (the bus carries
# whatever name a publisher chooses: plugins publish custom events); the n-th publish uses PUB_NAMES[n % len]
PUB_NAMES = [7, 6, 100, 8, 9, 101, 10, 11, 12, 0, 7, 65536]


def pub_name(n: int) -> int:
    return PUB_NAMES[n % len(PUB_NAMES)]


def _is_pub(ev: Any) -> bool:
    return isinstance(ev, dict) and ev.get('publisher_id') == 'vf' and isinstance(ev.get('event_payload'), dict) and 'n' in ev['event_payload']


class HistoryQueue:
    """The queue object handed to EventQueue: put() collects what the real API enqueues, get() runs the next op."""

    def __init__(self, ops: List[Tuple[Any, ...]], shutdown: threading.Event) -> None:
        self.ops = list(ops)
        self.shutdown = shutdown
        self.pending: List[Dict[str, Any]] = []
        self.eq: Any = None
        self.channels: List[Dict[str, Any]] = []      # every channel ever created, in creation order
        self.current: Dict[str, int] = {}               # id -> index into channels (as the *history* sees it)
        self.npub = 0
        self.consumed = 0

    def put(self, ev: Dict[str, Any]) -> None:
        # like multiprocessing.Queue.put(): the object is only buffered here; it is serialised later (by the feeder thread,
        # at any moment up to the get()), so whoever mutates it after put() changes what is delivered
        self.pending.append(ev)

    def _take(self) -> Dict[str, Any]:
        import copy
        ev = self.pending.pop(0)
        if isinstance(ev, dict) and _is_pub(ev):
            # plain-data events are "pickled" as late as a real queue may do it: now.  (Subscribe requests carry the channel
            # object and are handed over as they are.)
            ev = copy.deepcopy(ev)
        return ev

    def get(self, timeout: Optional[float] = None) -> Dict[str, Any]:
        while not self.pending:
            if not self.ops:
                self.shutdown.set()
                raise queue_mod.Empty()
            op = self.ops.pop(0)
            self.consumed += 1
            self._do(op)
        return self._take()

    def _do(self, op: Tuple[Any, ...]) -> None:
        kind = op[0]
        if kind == 'sub':
            sid, duplex = op[1], op[2]
            recv, send = multiprocessing.Pipe(duplex=bool(duplex))
            ch = {'id': sid, 'recv': recv, 'send': send, 'expected': [], 'state': 'live', 'duplex': bool(duplex), 'broken': False}
            if sid in self.current and self.channels[self.current[sid]]['state'] == 'live':
                self.channels[self.current[sid]]['state'] = 'replaced'
            self.channels.append(ch)
            self.current[sid] = len(self.channels) - 1
            self.eq.subscribe(sid, send)
            if len(op) > 3 and op[3]:
                # the subscriber goes away before the dispatcher gets to its subscription (e.g. setup() followed at once by shutdown())
                recv.close()
                ch['broken'] = True
                ch['state'] = 'broken'
        elif kind == 'unsub':
            sid = op[1]
            if sid in self.current and self.channels[self.current[sid]]['state'] == 'live':
                self.channels[self.current[sid]]['state'] = 'unsubscribed'
            self.eq.unsubscribe(sid)
        elif kind in ('pub', 'burst'):
            # 'burst': several publishes back to back, before the dispatcher gets to see the first of them
            for _ in range(1 if kind == 'pub' else int(op[1])):
                self.npub += 1
                for ch in self.channels:
                    if ch['state'] == 'live':
                        ch['expected'].append(self.npub)
                self.eq.publish(request_id='r%d' % self.npub, event_name=pub_name(self.npub), event_payload={'n': self.npub}, publisher_id='vf')
        elif kind == 'break':
            _, sid, unread = op
            if sid in self.current:
                ch = self.channels[self.current[sid]]
                if not ch['broken'] and ch['state'] in ('live',):
                    if not unread:
                        _drain(ch)
                    ch['recv'].close()
                    ch['broken'] = True
                    ch['state'] = 'broken'
        else:
            raise ValueError(op)


def _drain(ch: Dict[str, Any]) -> None:
    ch.setdefault('got', [])
    try:
        while ch['recv'].poll(0):
            ch['got'].append(ch['recv'].recv())
    except (EOFError, OSError):
        ch['eof'] = True


def run_history(ops: List[Tuple[Any, ...]]) -> Dict[str, Any]:
    from proxy.core.event import EventDispatcher, EventQueue
    shutdown = threading.Event()
    hq = HistoryQueue(ops, shutdown)
    eq = EventQueue(hq)     # type: ignore[arg-type]
    hq.eq = eq
    d = EventDispatcher(shutdown=shutdown, event_queue=eq)
    exc = None
    try:
        d.run()
    except BaseException as e:     # run() swallows Exception itself; anything else is reported
        exc = repr(e)
    for ch in hq.channels:
        if not ch['broken']:
            _drain(ch)
    res = {'channels': hq.channels, 'consumed': hq.consumed, 'total': len(ops), 'leftover_ops': len(hq.ops), 'exc': exc,
           'still_subscribed': set(d.subscribers.keys())}
    return res


def evaluate(c: Dict[str, Any]) -> Tuple[List[Any], Dict[str, Any]]:
    ops = [tuple(o) for o in c['ops']]
    r = run_history(ops)
    out: List[Any] = []
    kinds = set(o[0] for o in ops)
    feat = {'has_break': 'break' in kinds, 'has_unsub': 'unsub' in kinds, 'has_burst': 'burst' in kinds}
    live_counts = []
    live = 0
    # non-triviality bookkeeping (model side)
    cur: Dict[str, bool] = {}
    two_live_across_pub = False
    for o in ops:
        if o[0] == 'sub':
            cur[o[1]] = not (len(o) > 3 and o[3])
        elif o[0] in ('unsub', 'break') and o[1] in cur:
            cur[o[1]] = False
        elif o[0] in ('pub', 'burst') and sum(cur.values()) >= 2:
            two_live_across_pub = True
    info = {'nontrivial': two_live_across_pub and ('unsub' in kinds or 'break' in kinds), 'channels': len(r['channels'])}
    try:
        if r['leftover_ops'] or r['exc']:
            out.append(('dispatcher-stopped-before-the-end-of-the-history', feat, {'consumed': r['consumed'], 'of': r['total'], 'exc': r['exc']}, None))
        for i, ch in enumerate(r['channels']):
            if ch['broken']:
                continue
            got = ch.get('got', [])
            names = [g.get('event_name') for g in got]
            want: List[Any] = [2] + [pub_name(p) for p in ch['expected']]
            if ch['state'] == 'unsubscribed':
                want.append(4)
            elif ch['state'] == 'live':
                want.append(5)      # DISPATCHER_SHUTDOWN to whoever is still subscribed when run() ends
            payloads = [g['event_payload']['n'] for g in got if _is_pub(g)]
            if ch['state'] == 'replaced':
                # the id was re-subscribed with a new channel: what the old channel still gets is not specified;
                # only "no duplicates, no reordering, nothing it was not subscribed for" is required
                if payloads != sorted(set(payloads)) or any(p not in ch['expected'] and p <= max(ch['expected'] or [0]) for p in payloads):
                    out.append(('replaced-channel-got-duplicates-or-reordering', feat, payloads, ch['expected']))
                continue
            if out and out[0][0].startswith('dispatcher-stopped'):
                continue
            if payloads != ch['expected']:
                kind = 'lost' if len(payloads) < len(ch['expected']) else 'duplicated-or-extra'
                if sorted(payloads) == sorted(ch['expected']):
                    kind = 'reordered'
                out.append(('deliveries-' + kind, dict(feat, channel_state=ch['state']), payloads, ch['expected']))
            elif names != want:
                out.append(('protocol-events-differ', dict(feat, channel_state=ch['state']), names, want))
        return out, info
    finally:
        for ch in r['channels']:
            for k_ in ('recv', 'send'):
                try:
                    ch[k_].close()
                except OSError:
                    pass


def replay(case: Dict[str, Any]) -> List[Dict[str, Any]]:
    if 'lifecycle' in case:
        vs, _ = lifecycle_history(case['lifecycle'])
        return [{'property': ID, 'clause': cl, 'features': ft, 'case': case, 'observed': ob, 'expected': ex} for (cl, ft, ob, ex) in vs]
    vs, _ = evaluate(case)
    return [{'property': ID, 'clause': cl, 'features': ft, 'case': case, 'observed': ob, 'expected': ex} for (cl, ft, ob, ex) in vs]


# -- live tier: a real EventManager (thread + multiprocessing.Queue) -----------------------------------------

def live_history(n_pub: int, n_subs: int) -> List[Any]:
    import time
    from proxy.core.event import EventManager, EventSubscriber
    out: List[Any] = []
    got: Dict[int, List[int]] = {i: [] for i in range(n_subs)}
    with EventManager() as em:
        subs = []
        for i in range(n_subs):
            def cb(ev: Dict[str, Any], i: int = i) -> None:
                if _is_pub(ev):
                    got[i].append(ev['event_payload']['n'])
            s = EventSubscriber(em.queue, callback=cb)
            s.setup()
            subs.append(s)
        time.sleep(0.3)
        for n in range(1, n_pub + 1):
            em.queue.publish(request_id='r%d' % n, event_name=pub_name(n), event_payload={'n': n}, publisher_id='vf')
        deadline = time.time() + 20
        while time.time() < deadline and any(len(v) < n_pub for v in got.values()):
            time.sleep(0.05)
        for s in subs:
            s.shutdown()
    for i, v in got.items():
        if v != list(range(1, n_pub + 1)):
            if len(v) < n_pub and v == list(range(1, len(v) + 1)):
                continue       # deadline hit: inconclusive, not a violation
            out.append(('live-deliveries-differ', {'live': True}, v[:20], list(range(1, min(n_pub, 20) + 1))))
    return out


def lifecycle_history(ops: List[str]) -> Tuple[List[Any], Dict[str, Any]]:
    """One EventSubscriber OBJECT taken through a lifecycle (setup / unsubscribe / shutdown / setup again ...) on a live
    EventManager (dispatcher thread, real multiprocessing.Queue), next to a witness subscriber that stays subscribed.
    Model: the object's callback receives exactly the events published while it is subscribed, in order.
    Requests and publishes travel through one queue in order, so no waiting is needed between ops except for the relay thread
    of an unsubscribed object to end.  At the end a sentinel is published; once the WITNESS has it, the object gets ten more
    seconds for what it is still owed - the judgement is relative to the witness, not to absolute time."""
    import time
    from proxy.core.event import EventManager, EventSubscriber
    got: List[int] = []
    wit: List[int] = []
    want: List[int] = []
    out: List[Any] = []
    info = {'resubscribed': False, 'pubs_while_subscribed': 0}
    with EventManager() as em:
        w = EventSubscriber(em.queue, callback=lambda ev: wit.append(ev['event_payload']['n']) if _is_pub(ev) else None)
        w.setup()
        s = EventSubscriber(em.queue, callback=lambda ev: got.append(ev['event_payload']['n']) if _is_pub(ev) else None)
        state = 'new'          # new | subscribed | unsubscribed (relay ended by the ack) | down (shutdown() called)
        n = 0
        was_sub = False

        def settle() -> None:
            # An event still on its way when the object unsubscribes or shuts down may legitimately be missed (a race by nature).
            # Before such an op, wait until the witness has the latest event (the dispatcher has then handled it for everybody)
            # and give the object's relay a moment to hand it over.
            t1 = time.time() + 30
            while n and time.time() < t1 and (not wit or wit[-1] != n):
                time.sleep(0.01)
            t2 = time.time() + 10
            while time.time() < t2 and len(got) < len(want):
                time.sleep(0.01)
        for op in ops:
            if op == 'setup' and state in ('new', 'unsubscribed', 'down'):
                if was_sub:
                    info['resubscribed'] = True
                s.setup()
                state, was_sub = 'subscribed', True
            elif op == 'unsubscribe' and state == 'subscribed':
                settle()
                s.unsubscribe()
                th = s.relay_thread
                if th is not None:
                    th.join(20)         # the relay ends by itself on the acknowledgement
                state = 'unsubscribed'
            elif op == 'shutdown' and state in ('subscribed', 'unsubscribed'):
                if state == 'subscribed':
                    settle()
                s.shutdown(do_unsubscribe=(state == 'subscribed'))
                state = 'down'
            elif op == 'pub':
                n += 1
                em.queue.publish(request_id='r%d' % n, event_name=pub_name(n), event_payload={'n': n}, publisher_id='vf')
                if state == 'subscribed':
                    want.append(n)
                    info['pubs_while_subscribed'] += 1
        n += 1
        em.queue.publish(request_id='r%d' % n, event_name=pub_name(n), event_payload={'n': n}, publisher_id='vf')      # sentinel
        if state == 'subscribed':
            want.append(n)
        deadline = time.time() + 30
        while time.time() < deadline and (not wit or wit[-1] != n):
            time.sleep(0.02)
        witness_done = bool(wit) and wit[-1] == n
        t_end = time.time() + 10
        while time.time() < t_end and len(got) < len(want):
            time.sleep(0.02)
        try:
            if state in ('subscribed', 'unsubscribed'):
                s.shutdown(do_unsubscribe=(state == 'subscribed'))
            w.shutdown()
        except Exception as e:     # noqa: a shutdown that raises is part of the lifecycle under test
            out.append(('subscriber-shutdown-raises', {'lifecycle': True, 'exc': type(e).__name__}, repr(e), None))
    feat = {'lifecycle': True, 'resubscribed': info['resubscribed']}
    if not witness_done:
        info['inconclusive'] = True
        return out, info
    if wit != list(range(1, n + 1)):
        out.append(('witness-deliveries-differ', feat, wit[:20], list(range(1, min(n, 20) + 1))))
    if got != want:
        out.append(('subscriber-object-deliveries-differ', feat, {'got': got[:20], 'ops': ops}, {'want': want[:20]}))
    return out, info


def shards(tier: str) -> List[Dict[str, Any]]:
    q = tier == 'quick'
    maxlen = 5 if q else 6
    out = []
    for first in range(len(SHORT_OPS)):
        out.append({'name': 'exh-first%d' % first, 'kind': 'exh', 'first': first, 'maxlen': maxlen})
    for i in range(8 if q else 16):
        out.append({'name': 'sampled-%d' % i, 'kind': 'sampled', 'examples': 500 if q else 7000})
    out.append({'name': 'subscriber-lifecycles', 'kind': 'lifecycle', 'examples': 25 if q else 400})
    if not q:
        out.append({'name': 'live', 'kind': 'live', 'runs': 40})
    return out


def run_shard(spec: Dict[str, Any], seed: int, acc: Any) -> None:
    if spec['kind'] == 'exh':
        for n in range(1, spec['maxlen'] + 1):
            for rest in itertools.product(SHORT_OPS, repeat=n - 1):
                ops = [SHORT_OPS[spec['first']]] + list(rest)
                c = {'ops': [list(o) for o in ops]}
                vs, info = evaluate(c)
                acc.case(c, info['nontrivial'], labels=('len:%d' % n,))
                for (cl, ft, ob, ex) in vs:
                    acc.fail(c, cl, ft, ob, ex)
            acc.exhaustive_parts.append('all histories of length %d starting with %r over 9 ops / 2 subscribers' % (n, SHORT_OPS[spec['first']]))
        return
    if spec['kind'] == 'live':
        for i in range(spec['runs']):
            vs = live_history(20 + i, 1 + i % 3)
            acc.case({'live': i}, True, labels=('live',))
            for (cl, ft, ob, ex) in vs:
                acc.fail({'live': i}, cl, ft, ob, ex)
        return
    if spec['kind'] == 'lifecycle':
        lops = st.lists(st.sampled_from(['setup', 'setup', 'pub', 'pub', 'unsubscribe', 'shutdown']), min_size=2, max_size=12)

        def chk_l(c: Dict[str, Any]) -> List[Any]:
            vs, info = lifecycle_history(c['lifecycle'])
            if info.get('inconclusive'):
                acc.dontcare += 1
            acc.case(c, info['resubscribed'] and info['pubs_while_subscribed'] >= 1, labels=('subscriber-lifecycle',) + (('resubscribed',) if info['resubscribed'] else ()))
            return vs
        hyp.drive(st.fixed_dictionaries({'lifecycle': lops}), chk_l, acc, max_examples=spec['examples'], seed=seed, shrink=False)
        return
    ids = st.sampled_from(['A', 'B', 'C'])
    op = st.one_of(st.tuples(st.just('sub'), ids, st.booleans()).map(list), st.tuples(st.just('sub'), ids, st.booleans(), st.just(True)).map(list),
                   st.tuples(st.just('unsub'), st.sampled_from(['A', 'B', 'C', 'Z'])).map(list),
                   st.just(['pub']), st.just(['pub']), st.tuples(st.just('burst'), st.integers(2, 4)).map(list),
                   st.tuples(st.just('break'), ids, st.booleans()).map(list))

    def chk(c: Dict[str, Any]) -> List[Any]:
        vs, info = evaluate(c)
        acc.case(c, info['nontrivial'], labels=('sampled', 'channels:%d' % min(info['channels'], 6)))
        acc.size('max_history_len', len(c['ops']))
        return vs
    hyp.drive(st.fixed_dictionaries({'ops': st.lists(op, min_size=1, max_size=40)}), chk, acc, max_examples=spec['examples'], seed=seed)
