"""C02 - the forwarded HTTP request is semantically identical to the client's.

Harness K with a reactive origin.  The examined request is at position 1..3 of its connection (earlier ones
are keep-alive requests of a drawn kind: GET, chunked POST, Content-Length PUT, empty POST); any token method except CONNECT, absolute-form target, HTTP/1.0|1.1, header set with
case-insensitively unique names in arbitrary casing and value spacing (incl. Proxy-Connection,
Proxy-Authorization, operator-disabled headers, optionally a client Via), body by Content-Length or chunked
(any layout, empty chunked body), arbitrary segmentation.
Oracle (h11 + raw splitter on what the origin read + construction record): method, origin-form target, version;
header multiset = client's minus {Proxy-Authorization, Proxy-Connection, disabled} with names byte-identical and
values identical after OWS trimming, plus a Via naming the proxy; framing headers may be recomputed but the
decoded body is byte-identical and the message complete.  Header order: don't-care.
"""
from typing import Any, Dict, List, Optional, Tuple

from hypothesis import strategies as st

from vf.core import hyp
from vf.gens import http as G
from vf.harness import k as K
from vf.harness.peers import ReactiveOrigin, ReactiveClient
from vf.refs import http_ref as H

ID = 'C02'
LEVEL = 'exploration'
RULE = ('Hypothesis draws the request (method, absolute target incl. empty path / query-only, version, 0..8 headers with '
        'random casing/spacing, optional Proxy-Connection / Proxy-Authorization / disabled headers / client Via, body framing '
        'none | Content-Length | chunked with arbitrary layout incl. empty), its segmentation (none, every byte, structural '
        'k-cuts), its position 1..3 on the connection and the kinds of the requests before it, proxy flag --disable-headers, and the schedule. '
        'Non-trivial: request has a body or >= 3 headers AND (arrived in >= 2 segments OR position >= 2); distinct by case hash.')
ASSUMPTIONS = ['h11 as the independent parser of what the origin receives', 'AF_UNIX pairs stand in for TCP']

DISABLED = [b'x-secret', b'accept-language']
_FLAGS: Dict[Any, Any] = {}


PP_LINE = b'PROXY TCP4 192.0.2.1 192.0.2.2 56324 443\r\n'


def flags_for(disable: bool, pool: bool = False, events: bool = False, pp: bool = False) -> Any:
    # fresh flags for every case: what one request does to process-wide configuration (e.g. the operator's
    # disabled-header list) must show in the case that did it, so that its replay file reproduces it
    argv = ['--threadless'] + (['--enable-conn-pool'] if pool else []) + (['--enable-events'] if events else []) + \
        (['--enable-proxy-protocol'] if pp else [])
    if disable:
        argv += ['--disable-headers', ','.join(d.decode() for d in DISABLED)]
    return K.make_flags(argv)


WARM = {
    'get': lambda i: b'GET http://example.test/warm%d HTTP/1.1\r\nHost: example.test\r\n\r\n' % i,
    'chunked': lambda i: (b'POST http://example.test/warm%d HTTP/1.1\r\nHost: example.test\r\nTransfer-Encoding: chunked\r\n\r\n'
                          b'3\r\nabc\r\n0\r\n\r\n') % i,
    'cl': lambda i: b'PUT http://example.test/warm%d HTTP/1.1\r\nHost: example.test\r\ncontent-length: 4\r\n\r\nwxyz' % i,
    'cl0': lambda i: b'POST http://example.test/warm%d HTTP/1.1\r\nHost: example.test\r\nContent-Length: 0\r\n\r\n' % i,
}


def origin_form(target: bytes) -> bytes:
    rest = target.split(b'://', 1)[1]
    i = len(rest)
    for ch in (b'/', b'?'):
        j = rest.find(ch)
        if j >= 0:
            i = min(i, j)
    path = rest[i:]
    if not path.startswith(b'/'):
        path = b'/' + path if not path else b'/' + path     # empty path -> '/', '?q' -> '/?q'
    return path


def run_case(c: Dict[str, Any]) -> Dict[str, Any]:
    raw = G.render(c['req'])
    flags = flags_for(c.get('disable', False), c.get('pool', False), c.get('events', False), c.get('pp', False))
    w = K.World(flags, max_iters=20000)
    reqs: List[Tuple[bytes, List[int]]] = []
    warm = c.get('warm') or ['get'] * (c['position'] - 1)
    for i in range(c['position'] - 1):
        reqs.append((WARM[warm[i]](i), []))
    reqs.append((raw, c['cuts']))
    if c.get('pp'):
        # --enable-proxy-protocol: the connection opens with a PROXY line (HAProxy v1) ahead of its first request
        first_raw, first_cuts = reqs[0]
        reqs[0] = (PP_LINE + first_raw, [x + len(PP_LINE) for x in first_cuts])
    client = ReactiveClient('client', reqs)
    w.add_client(client)
    origins: List[ReactiveOrigin] = []

    def fac(world: K.World, addr: Tuple[str, int], idx: int) -> Tuple[K.Peer, Optional[Dict[str, Any]]]:
        o = ReactiveOrigin('origin%d' % idx)
        origins.append(o)
        return o, None
    w.origin_factory = fac
    w.order = ['client', 'origin0']
    w.schedule = c['schedule']
    w.run_local()
    return {'world': w, 'client': client, 'origins': origins, 'raw': raw}


def evaluate(c: Dict[str, Any]) -> Tuple[List[Any], Dict[str, Any]]:
    r = run_case(c)
    w: K.World = r['world']
    req = c['req']
    pos = c['position']
    hs_client = G.all_headers(req)
    names = [h[0].lower() for h in hs_client]
    feat = {'position': 'first' if pos == 1 else 'later', 'framing': req['framing'], 'empty_body': not req['body'],
            'client_via': b'via' in names, 'version': req['version'].decode()}
    info = {'segments': len(c['cuts']) + 1, 'headers': len(hs_client)}
    out: List[Any] = []
    try:
        if w.budget_exhausted:
            info['inconclusive'] = True
            return out, info
        if w.worker_died:
            return [('worker-died', dict(feat, exc=(w.exceptions or [('', 'loop-stopped')])[0][1].split(':')[0]), w.exceptions[:1], None)], info
        if len(r['origins']) != 1:
            return [('wrong-number-of-upstream-connections', feat, w.connect_log, 'exactly one connect to example.test')], info
        o = r['origins'][0]
        if o.bad:
            return [('origin-received-unparsable-bytes', feat, {'err': o.bad, 'bytes': o.unparsed[:120]}, None)], info
        if len(o.requests) < pos:
            cut_desc = G.describe_cuts(r['raw'], G.regions(req), c['cuts'])
            return [('request-not-forwarded-completely', dict(feat, cut_at=cut_desc if len(cut_desc) <= 2 else ['many']),
                     {'origin_complete_requests': len(o.requests), 'unparsed': o.unparsed[-100:]},
                     {'requests': pos})], info
        if len(o.requests) > pos or o.unparsed:
            out.append(('extra-bytes-forwarded', feat, {'requests': len(o.requests), 'unparsed': o.unparsed[:80]}, None))
        fwd = o.requests[pos - 1]
        p = H.parse_requests(fwd)
        if not p.ok or len(p.messages) != 1 or p.partial or p.leftover:
            return out + [('forwarded-request-rejected-by-h11', feat, {'h11': repr(p), 'bytes': fwd[:200]}, None)], info
        m = p.messages[0]
        line, raw_hs, _ = H.split_head(fwd)
        want_target = origin_form(req['target'])
        if (m['method'], m['target'], m['version']) != (req['method'], want_target, req['version']):
            out.append(('request-line-differs', feat, line, req['method'] + b' ' + want_target + b' ' + req['version']))
        if m['body'] != req['body']:
            out.append(('body-differs', feat, {'len': len(m['body']), 'head': m['body'][:40]},
                        {'len': len(req['body']), 'head': req['body'][:40]}))
        # headers
        removed = {b'proxy-authorization', b'proxy-connection'} | (set(DISABLED) if c.get('disable') else set())
        # Transfer-Encoding may be re-derived by the proxy (the decoded body is what is compared); a Content-Length the
        # client sent is a header field like any other: name and value intact (the proxy does not touch the body here)
        framing = {b'transfer-encoding'} if req['framing'] == 'cl' else {b'content-length', b'transfer-encoding'}
        def norm(name: bytes, value: bytes) -> Tuple[bytes, bytes]:
            # Content-Length is a number: 007 and 7 are the same field value
            if name.lower() == b'content-length' and value.strip().isdigit():
                return name, b'%d' % int(value)
            return name, value
        want = sorted(norm(h[0], h[1]) for h in hs_client if h[0].lower() not in removed | framing | {b'via'})
        got = sorted(norm(k_, v) for k_, v in raw_hs if k_.lower() not in framing | {b'via'})
        if got != want:
            missing = [x for x in want if x not in got]
            extra = [x for x in got if x not in want]
            kind = 'hop-by-hop-or-disabled-header-forwarded' if any(e[0].lower() in removed for e in extra) and not missing \
                else 'headers-differ'
            out.append((kind, feat, {'extra': extra[:6], 'missing': missing[:6]}, None))
        vias = [v for k_, v in raw_hs if k_.lower() == b'via']
        if not any(b'proxy.py' in v for v in vias):
            out.append(('via-missing', feat, vias, 'a Via field naming proxy.py'))
        elif feat['client_via']:
            cv = [h[1] for h in hs_client if h[0].lower() == b'via'][0]
            if not any(cv in v for v in vias):
                out.append(('client-via-lost', feat, vias, cv))
        # framing sanity beyond h11: chunked in -> still delimited
        return out, info
    finally:
        w.teardown()


def replay(case: Dict[str, Any]) -> List[Dict[str, Any]]:
    vs, _ = evaluate(case)
    return [{'property': ID, 'clause': cl, 'features': ft, 'case': case, 'observed': ob, 'expected': ex} for (cl, ft, ob, ex) in vs]


# -- generation -----------------------------------------------------------------------------------

@st.composite
def cases(draw: Any) -> Dict[str, Any]:
    version = draw(st.sampled_from([b'HTTP/1.1', b'HTTP/1.1', b'HTTP/1.0']))
    framings = ('none', 'cl', 'chunked') if version == b'HTTP/1.1' else ('none', 'cl')
    # chunk extensions and trailers are valid in requests too (the decoded body is what must survive)
    req = draw(G.request_spec(form='absolute', framings=framings, versions=(version,), max_body=400, max_headers=8,
                              plain_chunked=draw(st.integers(0, 2)) != 0))
    # target variants
    tv = draw(st.integers(0, 9))
    if tv == 0:
        req['target'] = b'http://example.test'
    elif tv == 1:
        req['target'] = b'http://example.test:80' + draw(G.path_query())
    elif tv == 2:
        req['target'] = b'http://example.test/'
    elif tv == 3:
        # no path, and a query that itself contains path and authority delimiters
        req['target'] = b'http://example.test' + draw(st.sampled_from([b'?next=/home', b'?u=a@b/c', b'?a=1#frag/x', b':80?x=/y/z', b'?/', b'?q=http://other.test/p']))
    extras = []
    if draw(st.integers(0, 2)) == 0:
        extras.append([G._recase(draw, 'Proxy-Connection').encode(), b'keep-alive', draw(st.integers(0, 3))])
    if draw(st.integers(0, 2)) == 0:
        extras.append([G._recase(draw, 'Proxy-Authorization').encode(), b'Basic dXNlcjpwYXNz', draw(st.integers(0, 3))])
    disable = draw(st.booleans())
    if draw(st.integers(0, 1)) == 0:
        extras.append([G._recase(draw, 'X-Secret').encode(), b'hunter2', draw(st.integers(0, 3))])
    if draw(st.integers(0, 3)) == 0:
        extras.append([G._recase(draw, 'Accept-Language').encode(), b'en', 0])
    if draw(st.integers(0, 5)) == 0:
        extras.append([G._recase(draw, 'Via').encode(), b'1.0 fred', 0])
    seen = {h[0].lower() for h in req['headers']}
    for e in extras:
        if e[0].lower() not in seen:
            req['headers'].insert(draw(st.integers(0, len(req['headers']))), e)
            seen.add(e[0].lower())
    req['fh_pos'] = draw(st.integers(0, len(req['headers'])))
    raw = G.render(req)
    position = draw(st.sampled_from([1, 1, 2, 3]))
    c = {'req': req, 'disable': disable, 'position': position, 'pool': draw(st.integers(0, 4)) == 0, 'events': draw(st.integers(0, 4)) == 0, 'pp': draw(st.integers(0, 4)) == 0,
         'warm': [draw(st.sampled_from(['get', 'chunked', 'cl', 'cl0'])) for _ in range(position - 1)],
         'cuts': draw(G.cut_set(len(raw), raw)), 'schedule': draw(st.lists(st.integers(0, 2), max_size=30))}
    return c


def shards(tier: str) -> List[Dict[str, Any]]:
    q = tier == 'quick'
    return [{'name': 'req-%02d' % i, 'examples': 330 if q else 6500} for i in range(16)]


def run_shard(spec: Dict[str, Any], seed: int, acc: Any) -> None:
    def chk(c: Dict[str, Any]) -> List[Any]:
        vs, info = evaluate(c)
        req = c['req']
        labs = ['framing:' + req['framing'], 'position:%d' % c['position'], 'version:' + req['version'].decode(),
                'segments:' + ('1' if info['segments'] == 1 else '2-8' if info['segments'] <= 8 else '>8')]
        labs += ['after:' + k_ for k_ in sorted(set(c.get('warm') or []))] + (['conn-pool'] if c.get('pool') else []) + (['events-enabled'] if c.get('events') else []) + (['proxy-protocol'] if c.get('pp') else [])
        if not req['body'] and req['framing'] == 'cl':
            labs.append('content-length-0')
        if not req['body'] and req['framing'] == 'chunked':
            labs.append('empty-chunked-body')
        if any(h[0].lower() == b'via' for h in req['headers']):
            labs.append('client-via')
        if info.get('inconclusive'):
            acc.dontcare += 1
        nt = (bool(req['body']) or info['headers'] >= 3) and (info['segments'] >= 2 or c['position'] >= 2)
        acc.case(c, nt, labels=labs)
        return vs
    hyp.drive(cases(), chk, acc, max_examples=spec['examples'], seed=seed)
