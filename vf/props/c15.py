"""C15 - HTTP message and chunked codecs round-trip and agree with a reference.

Sub-checks (one shard family each):
  build_req / build_resp : parse(build(x)) has x's start line, headers (+ only the documented additions) and body,
                           and h11 accepts the bytes as exactly one complete message with the same body
  rebuild_req / rebuild_resp : build(parse(y)) parses to the same tuple and is one complete message for h11
  update_body            : after update_body(b, ct) the rebuilt message carries exactly b (after de-chunking / gunzip)
  to_chunks              : ChunkParser(to_chunks(b, n)) == b == chunk_ref.decode(to_chunks(b, n))
  decoder_diff           : on every valid chunked stream + tail ChunkParser agrees with chunk_ref on
                           (complete, body) and on the bytes consumed
"""
import gzip
from typing import Any, Dict, List

from hypothesis import strategies as st

from vf.core import hyp
from vf.gens import http as G
from vf.refs import chunk_ref, http_ref as H

ID = 'C15'
LEVEL = 'exploration'
RULE = ('Hypothesis-drawn builder arguments (token methods, origin/absolute targets, versions, status codes admitting a '
        'body, reasons, header maps with trimmed values, bodies empty/binary/CRLF-laden/large, conn_close/no_ua/no_cl), '
        'grammar-generated messages (Content-Length or chunked with arbitrary layout, hex spelling, extensions, trailers), '
        'update_body inputs x content-encodings (single codings, case variants, x-gzip, identity, coding lists), to_chunks (body, chunk size >= 1) and valid chunked streams + tails. '
        'Non-trivial: non-empty body or chunked framing; distinct by hash of the case.')
ASSUMPTIONS = ['h11 0.16 as the independent parser', 'vf/refs/chunk_ref.py (self-tested)', 'gzip module']


def V(clause: str, feat: Dict[str, Any], ob: Any = None, ex: Any = None) -> Any:
    return (clause, feat, ob, ex)


def _hmap(hs: Any) -> Dict[bytes, Any]:
    return {bytes(k).lower(): (bytes(k), bytes(v)) for k, v in hs}


def _parser_headers(p: Any) -> Dict[bytes, Any]:
    return {k: (v[0], v[1]) for k, v in (p.headers or {}).items()}


# -- build_req ------------------------------------------------------------------------------------

def check_build_req(c: Dict[str, Any]) -> List[Any]:
    from proxy.common.utils import build_http_request
    from proxy.common.constants import PROXY_AGENT_HEADER_VALUE
    from proxy.http.parser import HttpParser
    headers = {h[0]: h[1] for h in c['headers']}
    chunked = c['chunked']
    body = c['body']
    wire_body = chunk_ref.encode(body, c['sizes']) if chunked else body
    if chunked:
        headers[b'Transfer-Encoding'] = b'chunked'
    feat = {'what': 'build_req', 'chunked': chunked, 'empty_body': not body, 'body_none': c['body_none']}
    expected = dict(_hmap(headers.items()))
    if c['content_type'] is not None:
        expected[b'content-type'] = (b'Content-Type', c['content_type'])
    if wire_body and not chunked:
        expected[b'content-length'] = (b'Content-Length', b'%d' % len(wire_body))
    if not c['no_ua'] and b'user-agent' not in expected:
        expected[b'user-agent'] = (b'User-Agent', PROXY_AGENT_HEADER_VALUE)
    if c['conn_close']:
        expected[b'connection'] = (b'Connection', b'close')
    try:
        raw = build_http_request(c['method'], c['target'], c['version'], content_type=c['content_type'],
                                 headers=dict(headers), body=None if (c['body_none'] and not wire_body) else wire_body,
                                 conn_close=c['conn_close'], no_ua=c['no_ua'])
        p = HttpParser.request(raw)
    except Exception as e:
        return [V('build-or-parse-raises', dict(feat, exc=type(e).__name__), repr(e))]
    out = []
    if (p.method, p.version) != (c['method'], c['version']) or (p.path or b'') != c['target']:
        out.append(V('start-line', feat, (p.method, p.path, p.version), (c['method'], c['target'], c['version'])))
    if _parser_headers(p) != expected:
        out.append(V('headers', feat, _parser_headers(p), expected))
    if (p.body or b'') != body:
        out.append(V('body', feat, (p.body or b'')[:64], body[:64]))
    if not p.is_complete:
        out.append(V('not-complete', feat))
    r = H.parse_requests(raw)
    if not r.ok or len(r.messages) != 1 or r.partial or r.leftover:
        out.append(V('h11-rejects', feat, repr(r), 'one complete request'))
    elif r.messages[0]['body'] != body or r.messages[0]['method'] != c['method'] or r.messages[0]['target'] != c['target']:
        out.append(V('h11-differs', feat, r.messages[0], (c['method'], c['target'], body[:64])))
    return out


@st.composite
def build_req_cases(draw: Any) -> Dict[str, Any]:
    body = draw(G.bodies(300))
    chunked = draw(st.booleans())
    hs = draw(G.header_list(0, 5))
    hs.append([b'Host', b'example.test', 0])
    if draw(st.integers(0, 3)) == 0:
        hs.append([G._recase(draw, 'User-Agent').encode(), b'curl/8', 0])
    return {'what': 'build_req', 'method': draw(st.sampled_from(G.METHODS)), 'target': draw(G.path_query()),
            'version': draw(st.sampled_from([b'HTTP/1.1', b'HTTP/1.0'])) if not chunked else b'HTTP/1.1',
            'headers': hs, 'body': body, 'chunked': chunked, 'sizes': draw(G.chunk_sizes(len(body))) if chunked else [],
            'content_type': draw(st.sampled_from([None, None, b'application/json'])) if not any(h[0].lower() == b'content-type' for h in hs) else None,
            'conn_close': draw(st.booleans()), 'no_ua': draw(st.booleans()), 'body_none': draw(st.booleans())}


# -- build_resp -----------------------------------------------------------------------------------

def check_build_resp(c: Dict[str, Any]) -> List[Any]:
    from proxy.common.utils import build_http_response
    from proxy.http.parser import HttpParser
    headers = {h[0]: h[1] for h in c['headers']}
    chunked = c['chunked']
    body = c['body']
    wire_body = chunk_ref.encode(body, c['sizes']) if chunked else body
    if chunked:
        headers[b'Transfer-Encoding'] = b'chunked'
    feat = {'what': 'build_resp', 'chunked': chunked, 'empty_body': not body, 'no_cl': c['no_cl'], 'reason': bool(c['reason'])}
    expected = dict(_hmap(headers.items()))
    if not chunked and not c['no_cl']:
        expected[b'content-length'] = (b'Content-Length', b'%d' % len(wire_body))
    if c['conn_close']:
        expected[b'connection'] = (b'Connection', b'close')
    try:
        raw = build_http_response(c['code'], protocol_version=c['version'], reason=c['reason'], headers=dict(headers),
                                  body=None if (c['body_none'] and not wire_body) else wire_body,
                                  conn_close=c['conn_close'], no_cl=c['no_cl'])
        p = HttpParser.response(raw)
    except Exception as e:
        return [V('build-or-parse-raises', dict(feat, exc=type(e).__name__), repr(e))]
    out = []
    if (p.version, p.code, p.reason or b'') != (c['version'], b'%d' % c['code'], c['reason'] or b''):
        out.append(V('start-line', feat, (p.version, p.code, p.reason), (c['version'], c['code'], c['reason'])))
    if _parser_headers(p) != expected:
        out.append(V('headers', feat, _parser_headers(p), expected))
    if (p.body or b'') != body:
        out.append(V('body', feat, (p.body or b'')[:64], body[:64]))
    self_delimited = chunked or not c['no_cl']
    if self_delimited and not p.is_complete:
        out.append(V('not-complete', feat))
    if c['reason']:     # RFC 7230 requires "SP reason-phrase"; every response proxy.py builds itself passes a reason
        r = H.parse_responses(raw, [b'GET'], eof=True)
        if not r.ok or len(r.messages) != 1 or r.partial or r.leftover:
            out.append(V('h11-rejects', feat, repr(r), 'one complete response'))
        elif r.messages[0]['body'] != body or r.messages[0]['code'] != c['code']:
            out.append(V('h11-differs', feat, r.messages[0], (c['code'], body[:64])))
    return out


@st.composite
def build_resp_cases(draw: Any) -> Dict[str, Any]:
    body = draw(G.bodies(300))
    chunked = draw(st.integers(0, 2)) == 0
    hs = draw(G.header_list(0, 5))
    return {'what': 'build_resp', 'code': draw(st.sampled_from([200, 201, 206, 301, 308, 400, 404, 407, 500, 502, 599])),
            'version': b'HTTP/1.1' if chunked else draw(st.sampled_from([b'HTTP/1.1', b'HTTP/1.0'])),
            'reason': draw(st.sampled_from([b'OK', b'Not Found', b'Multi Word Reason', b'x', None])),
            'headers': hs, 'body': body, 'chunked': chunked, 'sizes': draw(G.chunk_sizes(len(body))) if chunked else [],
            'conn_close': draw(st.booleans()), 'no_cl': draw(st.booleans()) and not chunked, 'body_none': draw(st.booleans())}


# -- rebuild --------------------------------------------------------------------------------------

def _tuple_of(p: Any, kind: str) -> Dict[str, Any]:
    hs = _parser_headers(p)
    cl = hs.pop(b'content-length', None)
    d = {'headers': hs, 'cl': None if cl is None else int(cl[1]), 'body': p.body or b'', 'complete': p.is_complete}
    if kind == 'req':
        d.update(method=p.method, path=p.path or b'/', version=p.version)
    else:
        d.update(version=p.version, code=p.code, reason=p.reason)
    return d


def check_rebuild(c: Dict[str, Any]) -> List[Any]:
    from proxy.http.parser import HttpParser
    spec = c['msg']
    kind = spec['kind']
    raw = G.render(spec)
    feat = {'what': 'rebuild_' + kind, 'framing': spec['framing'], 'empty_body': not spec['body'],
            'ext': bool(spec.get('exts') and any(spec['exts'])) or bool(spec.get('last_ext')), 'trailers': bool(spec.get('trailers'))}
    try:
        from proxy.http.parser import httpParserTypes
        p = HttpParser(httpParserTypes.REQUEST_PARSER if kind == 'req' else httpParserTypes.RESPONSE_PARSER)
        for piece in G.cut(raw, [x % max(1, len(raw)) for x in c.get('cuts', [])]):
            p.parse(memoryview(piece))
        if not p.is_complete:
            return [V('original-not-complete', feat, None, 'complete')]
        z = p.build() if kind == 'req' else p.build_response()
        q = HttpParser.request(z) if kind == 'req' else HttpParser.response(z)
    except Exception as e:
        return [V('rebuild-raises', dict(feat, exc=type(e).__name__), repr(e))]
    out = []
    a, b = _tuple_of(p, kind), _tuple_of(q, kind)
    if a['cl'] is None and spec['framing'] == 'chunked':
        b['cl'] = None if b['cl'] is None else b['cl']
    if a != b:
        diff = sorted(k for k in a if a[k] != b[k])
        out.append(V('reparse-differs', dict(feat, fields=diff), {k: b[k] for k in diff}, {k: a[k] for k in diff}))
    if a['body'] != spec['body']:
        out.append(V('decoded-body-differs-from-construction', feat, a['body'][:64], spec['body'][:64]))
    r = H.parse_requests(z) if kind == 'req' else H.parse_responses(z, [b'GET'], eof=False)
    if not r.ok or len(r.messages) != 1 or r.partial or r.leftover:
        out.append(V('h11-rejects-rebuilt', feat, {'h11': repr(r), 'rebuilt': z[-80:]}, 'one complete message'))
    elif r.messages[0]['body'] != spec['body']:
        out.append(V('h11-body-differs', feat, r.messages[0]['body'][:64], spec['body'][:64]))
    return out


@st.composite
def rebuild_cases(draw: Any, kind: str) -> Dict[str, Any]:
    if kind == 'req':
        msg = draw(G.request_spec(form=draw(st.sampled_from(['origin', 'absolute'])), framings=('none', 'cl', 'chunked'),
                                  versions=(b'HTTP/1.1',), max_body=300))
    else:
        msg = draw(G.response_spec(framings=('cl', 'chunked'), max_body=300))
        msg['version'] = b'HTTP/1.1'
        if msg.get('reason') in (None, b''):
            msg['reason'] = b'OK'
    return {'what': 'rebuild', 'msg': msg, 'cuts': draw(st.one_of(st.just([]), st.lists(st.integers(1, 2000), min_size=1, max_size=4)))}


# -- update_body ----------------------------------------------------------------------------------

def check_update_body(c: Dict[str, Any]) -> List[Any]:
    from proxy.http.parser import HttpParser
    spec = c['msg']
    kind = spec['kind']
    raw = G.render(spec)
    enc = c['encoding']
    feat = {'what': 'update_body', 'kind': kind, 'framing': spec['framing'], 'encoding': enc, 'empty_new': not c['new']}
    try:
        p = HttpParser.request(raw) if kind == 'req' else HttpParser.response(raw)
        p.update_body(c['new'], c['ctype'])
        z = p.build() if kind == 'req' else p.build_response()
    except Exception as e:
        return [V('update-raises', dict(feat, exc=type(e).__name__), repr(e))]
    r = H.parse_requests(z) if kind == 'req' else H.parse_responses(z, [b'GET'], eof=False)
    if not r.ok or len(r.messages) != 1 or r.partial or r.leftover:
        return [V('h11-rejects-updated', feat, {'h11': repr(r), 'rebuilt': z[-120:]}, 'one complete message')]
    m = r.messages[0]
    hd = {k.lower(): v for k, v in m['headers']}
    body = m['body']
    out = []
    # undo the content codings the rebuilt message declares, outermost (last listed) first, the way any recipient would
    import zlib
    codings = [x.strip().lower() for x in hd.get(b'content-encoding', b'').split(b',') if x.strip()]
    for coding in reversed(codings):
        if coding in (b'gzip', b'x-gzip'):
            try:
                body = gzip.decompress(body)
            except Exception as e:
                return [V('advertised-gzip-does-not-decompress', feat, repr(e))]
        elif coding == b'deflate':
            try:
                body = zlib.decompress(body)
            except Exception as e:
                return [V('advertised-coding-does-not-decode', feat, repr(e))]
        elif coding != b'identity':
            out.append(V('stale-content-encoding-kept', feat, hd[b'content-encoding']))
            break
    if body != c['new']:
        out.append(V('updated-body-differs', feat, body[:80], c['new'][:80]))
    if hd.get(b'content-type') != c['ctype']:
        out.append(V('content-type-not-set', feat, hd.get(b'content-type'), c['ctype']))
    want_other = {h[0].lower(): h[1] for h in spec['headers'] if h[0].lower() not in (b'content-type', b'content-encoding')}
    got_other = {k: v for k, v in hd.items() if k in want_other}
    if got_other != want_other:
        out.append(V('other-headers-changed', feat, got_other, want_other))
    return out


@st.composite
def update_cases(draw: Any) -> Dict[str, Any]:
    kind = draw(st.sampled_from(['req', 'resp']))
    enc = draw(st.sampled_from(['none', 'none', 'gzip', 'gzip', 'br', 'deflate', 'GZIP', 'x-gzip', 'deflate, gzip', 'gzip, gzip', 'gzip,deflate', 'identity', 'br, gzip']))
    if kind == 'req':
        msg = draw(G.request_spec(framings=('cl', 'chunked', 'none'), versions=(b'HTTP/1.1',), methods=st.sampled_from([b'POST', b'PUT']),
                                  plain_chunked=True, max_body=200))
    else:
        msg = draw(G.response_spec(framings=('cl', 'chunked'), plain_chunked=True, max_body=200))
        msg['version'], msg['reason'] = b'HTTP/1.1', b'OK'
    orig = msg['body']
    if enc == 'gzip':
        msg['body'] = gzip.compress(orig, mtime=0)
        if msg['framing'] == 'chunked':
            msg['sizes'] = [len(msg['body'])]
    if msg['framing'] == 'none' and enc != 'none':
        enc = 'none'
    if enc != 'none':
        msg['headers'] = [h for h in msg['headers'] if h[0].lower() != b'content-encoding'] + [[b'Content-Encoding', enc.encode(), 0]]
    return {'what': 'update_body', 'msg': msg, 'encoding': enc, 'new': draw(G.bodies(200)),
            'ctype': draw(st.sampled_from([b'application/json', b'text/plain']))}


# -- chunk codecs ---------------------------------------------------------------------------------

def check_to_chunks(c: Dict[str, Any]) -> List[Any]:
    from proxy.http.parser import ChunkParser, chunkParserStates
    feat = {'what': 'to_chunks', 'empty_body': not c['body']}
    try:
        enc = ChunkParser.to_chunks(c['body'], c['size'])
    except Exception as e:
        return [V('to_chunks-raises', dict(feat, exc=type(e).__name__), repr(e))]
    out = []
    try:
        ref = chunk_ref.decode(enc)
    except ValueError as e:
        return [V('to_chunks-invalid-for-reference', feat, repr(e), enc[:80])]
    if ref != (True, c['body'], len(enc)):
        out.append(V('reference-decoder-disagrees-with-encoder', feat, (ref[0], ref[1][:40], ref[2]), (True, c['body'][:40], len(enc))))
    p = ChunkParser()
    try:
        rem = bytes(p.parse(memoryview(enc)))
    except Exception as e:
        return out + [V('decoder-raises', dict(feat, exc=type(e).__name__), repr(e))]
    if p.state != chunkParserStates.COMPLETE or p.body != c['body'] or rem != b'':
        out.append(V('decoder-not-inverse-of-encoder', feat, (p.state, p.body[:40], rem[:20]), (3, c['body'][:40], b'')))
    return out


def check_decoder_diff(c: Dict[str, Any]) -> List[Any]:
    from proxy.http.parser import ChunkParser, chunkParserStates
    spec = dict(c['chunked'], framing='chunked')
    stream = G.render_body(spec)
    cutoff = c.get('truncate')
    data = (stream + c['tail']) if cutoff is None else stream[:max(0, len(stream) - cutoff)]
    feat = {'what': 'decoder_diff', 'ext': bool(spec.get('exts') and any(spec['exts'])) or bool(spec.get('last_ext')),
            'trailers': bool(spec.get('trailers')), 'truncated': cutoff is not None, 'zeros': spec.get('last_zeros', 1) > 1}
    done, body, used = chunk_ref.decode(data)
    p = ChunkParser()
    rem = b''
    try:
        # the stream reaches the decoder in the reads the network delivers: one piece, or cut anywhere
        for piece in G.cut(data, [x % max(1, len(data)) for x in c.get('cuts', [])]):
            if p.state == chunkParserStates.COMPLETE:
                rem += piece
            else:
                rem = bytes(p.parse(memoryview(piece)))
    except Exception as e:
        return [V('decoder-raises', dict(feat, exc=type(e).__name__), repr(e))]
    out = []
    got_done = p.state == chunkParserStates.COMPLETE
    if got_done != done:
        out.append(V('completion-disagrees-with-reference', feat, got_done, done))
    elif done:
        if p.body != body:
            out.append(V('body-disagrees-with-reference', feat, p.body[:64], body[:64]))
        if rem != data[used:]:
            out.append(V('consumed-bytes-disagree-with-reference', feat, rem[:40], data[used:][:40]))
    return out


@st.composite
def decoder_cases(draw: Any) -> Dict[str, Any]:
    fr = draw(G.framing(('chunked',), 300))
    fr.pop('framing')
    trunc = draw(st.one_of(st.none(), st.none(), st.integers(1, 12)))
    return {'what': 'decoder_diff', 'chunked': fr, 'tail': draw(st.binary(max_size=16)) if trunc is None else b'', 'truncate': trunc,
            'cuts': draw(st.one_of(st.just([]), st.lists(st.integers(1, 2000), min_size=1, max_size=4)))}


# -- plumbing -------------------------------------------------------------------------------------

CHECKS = {'build_req': check_build_req, 'build_resp': check_build_resp, 'rebuild': check_rebuild,
          'update_body': check_update_body, 'to_chunks': check_to_chunks, 'decoder_diff': check_decoder_diff}


def replay(case: Dict[str, Any]) -> List[Dict[str, Any]]:
    return [{'property': ID, 'clause': cl, 'features': ft, 'case': case, 'observed': ob, 'expected': ex}
            for (cl, ft, ob, ex) in CHECKS[case['what']](case)]


def shards(tier: str) -> List[Dict[str, Any]]:
    q = tier == 'quick'
    plan = [('build_req', 1500, 2), ('build_resp', 1500, 2), ('rebuild_req', 1500, 3), ('rebuild_resp', 1500, 3),
            ('update_body', 1500, 2), ('to_chunks', 2000, 1), ('decoder_diff', 2500, 3)]
    out = []
    for what, n, k in plan:
        for i in range(k if q else 2 * k):
            out.append({'name': '%s-%d' % (what, i), 'what': what, 'examples': n if q else n * 12})
    if tier != 'quick':
        for t_ in ('decoder_diff', 'rebuild_req', 'rebuild_resp', 'update_body'):
            out.append({'name': 'atheris-' + t_, 'kind': 'atheris', 'what': t_, 'target': t_, 'runs': 150000, 'examples': 0, 'pair_limit': 0})
    return out


def run_shard(spec: Dict[str, Any], seed: int, acc: Any) -> None:
    if spec.get('kind') == 'atheris':
        import sys
        from vf.fuzz import run as fuzz_run
        fuzz_run.campaign(sys.modules[__name__], spec['target'], acc, runs=spec['runs'], seed=seed)
        return
    chunk_ref.selftest()
    what = spec['what']
    strat = {'build_req': build_req_cases(), 'build_resp': build_resp_cases(), 'rebuild_req': rebuild_cases('req'),
             'rebuild_resp': rebuild_cases('resp'), 'update_body': update_cases(),
             'to_chunks': st.fixed_dictionaries({'what': st.just('to_chunks'), 'body': G.bodies(3000),
                                                 'size': st.one_of(st.integers(1, 40), st.integers(1, 5000))}),
             'decoder_diff': decoder_cases()}[what]

    def chk(c: Dict[str, Any]) -> List[Any]:
        body = c.get('body') if 'body' in c else (c.get('msg') or c.get('chunked') or {}).get('body', b'')
        fr = (c.get('msg') or {}).get('framing')
        nt = bool(body) or bool(c.get('chunked')) or fr == 'chunked' or bool(c.get('new'))
        acc.case(c, nt, labels=('what:' + what,) + (('framing:' + fr,) if fr else ()))
        acc.size('max_body', len(body or b''))
        return CHECKS[c['what']](c)
    hyp.drive(strat, chk, acc, max_examples=spec['examples'], seed=seed)


def fuzz_targets() -> Dict[str, Any]:
    """Coverage-guided campaigns of the thorough tier (atheris drives these strategies through fuzz_one_input)."""
    return {'decoder_diff': (decoder_cases(), check_decoder_diff), 'rebuild_req': (rebuild_cases('req'), check_rebuild),
            'rebuild_resp': (rebuild_cases('resp'), check_rebuild), 'update_body': (update_cases(), check_update_body)}
