"""C03 - incremental HTTP parsing does not depend on how input is segmented.

Domain (exactly the property's): requests / responses framed by Content-Length or chunked followed by
arbitrary trailing bytes; body-less requests and header-less status lines without trailing bytes;
ChunkParser alone on valid chunked streams + trailing bytes.
Oracle:
 (1) metamorphic: observable tuple after the last piece == tuple after the one-piece feed
 (2) absolute (from the construction record): after every prefix of pieces, is_complete iff the bytes
     supplied cover the message's last byte; once complete the remainder is exactly the trailing bytes
     supplied so far; when complete, the decoded body is the constructed body.
"""
from typing import Any, Dict, List, Optional, Tuple

from hypothesis import strategies as st

from vf.core import hyp
from vf.gens import http as G
from vf.refs import chunk_ref

ID = 'C03'
LEVEL = 'exploration'
RULE = ('Hypothesis draws a message spec (request/response; Content-Length or chunked with arbitrary chunk layout, hex '
        'spelling, optional extensions/trailers; or body-less request / header-less status line) plus trailing bytes; for '
        'each message the check feeds: one piece, one byte per piece, ALL single cuts, all cut pairs when the message is '
        '<= 90 bytes, and Hypothesis-drawn k-cuts biased to structural offsets (after CR, around chunk CRLF, inside the '
        'size line, between messages). Evaluations count (message, cut-set) feeds. Non-trivial: >= 1 cut strictly inside '
        'the message and the message has a body or >= 2 headers; distinct by hash of (message bytes, cut set).')
EXPLANATION = 'per generated message the single-cut sub-space (and pair-cut sub-space for short messages) is enumerated completely'
ASSUMPTIONS = ['vf/refs/chunk_ref.py transcribes RFC 7230 4.1 faithfully (self-tested)',
               'the generators only emit syntactically valid messages (cross-checked against h11 in C15)']


# -- observation ----------------------------------------------------------------------------------

def _observe(p: Any) -> Dict[str, Any]:
    return {
        'complete': p.is_complete, 'method': p.method, 'host': p.host, 'port': p.port, 'path': p.path,
        'version': p.version, 'code': p.code, 'reason': p.reason,
        'headers': None if p.headers is None else {k: list(v) for k, v in p.headers.items()},
        'body': p.body if p.is_complete else None,
        'remainder': b'' if p.buffer is None else bytes(p.buffer),
    }


PP_VALID = [b'PROXY TCP4 192.0.2.1 192.0.2.2 56324 443\r\n', b'PROXY TCP6 2001:db8::1 2001:db8::2 1 65535\r\n', b'PROXY UNKNOWN\r\n']


def _new_parser(kind: str) -> Any:
    from proxy.http.parser import HttpParser, httpParserTypes
    if kind == 'req-pp':
        # the listener was started with --enable-proxy-protocol: a (valid, v1) PROXY line precedes the request
        return HttpParser(httpParserTypes.REQUEST_PARSER, enable_proxy_protocol=1)
    return HttpParser(httpParserTypes.REQUEST_PARSER if kind == 'req' else httpParserTypes.RESPONSE_PARSER)


def feed_http(kind: str, pieces: List[bytes], msg_len: int) -> Tuple[Any, List[Tuple[int, bool, bytes]]]:
    """Feeds pieces; returns (final outcome, per-prefix trace of (bytes so far, complete, remainder))."""
    p = _new_parser(kind)
    trace = []
    fed = 0
    for piece in pieces:
        try:
            p.parse(memoryview(piece))
        except Exception as e:
            return ('exc', type(e).__name__, fed), trace
        fed += len(piece)
        trace.append((fed, p.is_complete, b'' if p.buffer is None else bytes(p.buffer)))
    return ('ok', _observe(p)), trace


def feed_chunk(pieces: List[bytes]) -> Tuple[Any, List[Tuple[int, bool, bytes]]]:
    from proxy.http.parser.chunk import ChunkParser, chunkParserStates
    p = ChunkParser()
    trace = []
    fed = 0
    rem = b''
    for piece in pieces:
        if p.state == chunkParserStates.COMPLETE:
            # a caller stops feeding a completed decoder; later bytes are remainder by definition
            rem += piece
        else:
            try:
                rem = bytes(p.parse(memoryview(piece)))
            except Exception as e:
                return ('exc', type(e).__name__, fed), trace
        fed += len(piece)
        trace.append((fed, p.state == chunkParserStates.COMPLETE, rem))
    done = p.state == chunkParserStates.COMPLETE
    return ('ok', {'complete': done, 'body': p.body if done else None, 'remainder': rem if done else None}), trace


# -- one case ----------------------------------------------------------------------------------------

def case_bytes(c: Dict[str, Any]) -> Tuple[bytes, int, str, bytes]:
    """(raw, message length, kind, expected decoded body)"""
    if 'chunked' in c:
        spec = dict(c['chunked'], framing='chunked')
        m = G.render_body(spec)
        return m + c['tail'], len(m), 'chunk', spec['body']
    m = G.render(c['msg'])
    if c.get('pp') is not None and c['msg']['kind'] == 'req':
        pre = PP_VALID[c['pp'] % len(PP_VALID)]
        return pre + m + c['tail'], len(pre) + len(m), 'req-pp', c['msg']['body']
    return m + c['tail'], len(m), c['msg']['kind'], c['msg']['body']


def features(c: Dict[str, Any], cuts: List[int]) -> Dict[str, Any]:
    raw, mlen, kind, _ = case_bytes(c)
    if kind == 'chunk':
        spec = dict(c['chunked'], framing='chunked')
        regs = []
        pos = 0
        for (n, label) in G.chunk_regions(spec):
            regs.append((pos, pos + n, label))
            pos += n
        regs.append((pos, pos + len(c['tail']), 'tail'))
        fr = 'chunked'
    else:
        spec = c['msg']
        regs = G.regions(spec, c['tail'])
        if kind == 'req-pp':
            L = len(PP_VALID[c['pp'] % len(PP_VALID)])
            regs = [(0, L, 'proxy-protocol-line')] + [(a + L, b + L, lab) for (a, b, lab) in regs]
        fr = spec['framing']
        if fr == 'none' and not spec['headers']:
            fr = 'headerless'
    return {'kind': kind, 'framing': fr, 'tail': bool(c['tail']),
            'ext': bool(spec.get('exts') and any(spec['exts'])) or bool(spec.get('last_ext')),
            'trailers': bool(spec.get('trailers')), 'zeros': spec.get('last_zeros', 1) > 1 if fr == 'chunked' else False,
            'cut_at': G.describe_cuts(raw, regs, cuts)}


def check_cuts(c: Dict[str, Any], cuts: List[int], one: Optional[Any] = None) -> List[Any]:
    raw, mlen, kind, want_body = case_bytes(c)
    pieces = G.cut(raw, cuts)
    feed = (lambda ps: feed_chunk(ps)) if kind == 'chunk' else (lambda ps: feed_http(kind, ps, mlen))
    if one is None:
        one = feed([raw])
    got, trace = feed(pieces)
    out: List[Any] = []
    ft = None

    def F() -> Dict[str, Any]:
        nonlocal ft
        if ft is None:
            ft = features(c, cuts)
        return ft
    # (2) absolute
    if got[0] == 'exc':
        out.append(('parser-raises', dict(F(), exc=got[1]), got, 'no exception on a valid message'))
    else:
        for (fed, complete, rem) in trace:
            should = fed >= mlen
            if complete != should:
                out.append(('complete-too-early' if complete else 'not-complete-when-last-byte-supplied', F(),
                            {'fed': fed, 'message_len': mlen, 'complete': complete}, {'complete': should}))
                break
            if complete and rem != raw[mlen:fed]:
                out.append(('remainder-not-preserved', F(), {'fed': fed, 'remainder': rem}, {'remainder': raw[mlen:fed]}))
                break
        else:
            if got[1]['complete'] and (got[1]['body'] or b'') != want_body:
                out.append(('body-differs-from-construction', F(), (got[1]['body'] or b'')[:64], want_body[:64]))
    # (1) metamorphic
    if cuts and one[0][:2] != got[:2] and not (one[0][0] == 'exc' and got[0] == 'exc' and one[0][1] == got[1]):
        diff = None
        if one[0][0] == 'ok' and got[0] == 'ok':
            diff = sorted(k for k in got[1] if got[1][k] != one[0][1].get(k))
        out.append(('split-feed-differs-from-whole-feed', dict(F(), fields=diff),
                    got if diff is None else {k: got[1][k] for k in diff},
                    one[0] if diff is None else {k: one[0][1].get(k) for k in diff}))
    return out


def replay(case: Dict[str, Any]) -> List[Dict[str, Any]]:
    c = {k: v for k, v in case.items() if k != 'cuts'}
    return [{'property': ID, 'clause': cl, 'features': ft, 'case': case, 'observed': ob, 'expected': ex}
            for (cl, ft, ob, ex) in check_cuts(c, case.get('cuts', []))]


# -- search ----------------------------------------------------------------------------------------------

TAILS = st.one_of(
    st.just(b''), st.binary(max_size=12),
    st.sampled_from([b'\r\n', b'\r', b'\n', b'GET / HTTP/1.1\r\nHost: a\r\n\r\n', b'HTTP/1.1 200 OK\r\nContent-Length: 2\r\n\r\nhi',
                     b'0\r\n\r\n', b'5\r\nhello\r\n']))


@st.composite
def cases(draw: Any, what: str) -> Dict[str, Any]:
    if what == 'chunk':
        fr = draw(G.framing(('chunked',), 120))
        fr.pop('framing')
        return {'chunked': fr, 'tail': draw(TAILS), 'extra_cuts': draw(st.lists(st.lists(st.integers(1, 400), max_size=6), max_size=6))}
    if what == 'req':
        msg = draw(G.request_spec(form=draw(st.sampled_from(['origin', 'absolute'])), framings=('cl', 'chunked'),
                                  with_host=draw(st.booleans()), max_body=120))
        if msg['framing'] == 'none':     # request_spec turns an empty Content-Length body into 'none'; cl0 is its own class
            msg['framing'], msg['body'] = 'cl', b'x'
        tail = draw(TAILS)
        if draw(st.integers(0, 4)) == 0:
            return {'msg': msg, 'tail': tail, 'pp': draw(st.integers(0, len(PP_VALID) - 1)),
                    'extra_cuts': draw(st.lists(st.lists(st.integers(1, 600), max_size=6), max_size=6))}
    elif what == 'resp':
        msg = draw(G.response_spec(framings=('cl', 'chunked'), max_body=120))
        if msg['framing'] == 'cl' and not msg['body']:
            msg['body'] = b'x'      # Content-Length: 0 is generated separately (class cl0)
        tail = draw(TAILS)
    elif what == 'cl0':
        kind = draw(st.sampled_from(['req', 'resp']))
        msg = draw(G.request_spec(framings=('none',), max_body=0) if kind == 'req' else G.response_spec(framings=('cl',), max_body=0))
        msg['framing'] = 'cl'
        msg['body'] = b''
        tail = draw(TAILS)
    elif what == 'bodyless':
        msg = draw(G.request_spec(form=draw(st.sampled_from(['origin', 'absolute'])), framings=('none',), with_host=draw(st.booleans())))
        tail = b''
    elif what == 'connect':
        msg = draw(G.request_spec(framings=('none',), with_host=draw(st.booleans()), methods=st.just(b'CONNECT')))
        msg['target'] = draw(st.sampled_from([b'example.test:443', b'10.0.0.1:8443', b'[::1]:443', b'h:1']))
        tail = b''
    elif what == 'statusline':
        msg = draw(G.response_spec(framings=('close',), max_body=0, max_headers=0))
        msg['framing'] = 'none'
        msg['headers'] = []
        tail = b''
    else:
        raise ValueError(what)
    return {'msg': msg, 'tail': tail, 'extra_cuts': draw(st.lists(st.lists(st.integers(1, 600), max_size=6), max_size=6))}


def cut_sets_for(c: Dict[str, Any], raw: bytes, mlen: int, pair_limit: int) -> List[List[int]]:
    n = len(raw)
    sets: List[List[int]] = [[]]
    sets += [[i] for i in range(1, n)]
    if n <= pair_limit:
        sets += [[i, j] for i in range(1, n) for j in range(i + 1, n)]
    so = G.structural_offsets(raw)
    for extra in c.get('extra_cuts', []):
        e = sorted(set(x for x in extra if 0 < x < n))
        if e:
            sets.append(e)
            if so:   # snap each drawn cut to the nearest structural offset
                sets.append(sorted(set(min(so, key=lambda s: abs(s - x)) for x in e)))
    sets.append(list(range(1, n)))     # one byte per piece
    return sets


def shards(tier: str) -> List[Dict[str, Any]]:
    q = tier == 'quick'
    plan = [('req', 400, 4), ('resp', 400, 4), ('chunk', 600, 3), ('cl0', 150, 1), ('bodyless', 300, 2),
            ('connect', 150, 1), ('statusline', 200, 1)]
    out = []
    for what, n, k in plan:
        for i in range(k if q else k * 3):
            out.append({'name': '%s-%d' % (what, i), 'what': what, 'examples': n if q else n * 8,
                        'pair_limit': 90 if q else 140})
    if tier != 'quick':
        for t_ in ('req', 'resp', 'chunk', 'cl0', 'bodyless', 'statusline'):
            out.append({'name': 'atheris-' + t_, 'kind': 'atheris', 'what': t_, 'target': t_, 'runs': 150000, 'examples': 0, 'pair_limit': 0})
    return out


def run_shard(spec: Dict[str, Any], seed: int, acc: Any) -> None:
    if spec.get('kind') == 'atheris':
        import sys
        from vf.fuzz import run as fuzz_run
        fuzz_run.campaign(sys.modules[__name__], spec['target'], acc, runs=spec['runs'], seed=seed)
        return
    chunk_ref.selftest()
    what = spec['what']

    def chk(c: Dict[str, Any]) -> List[Any]:
        raw, mlen, kind, _ = case_bytes(c)
        base = {k: v for k, v in c.items() if k != 'extra_cuts'}
        feed = (lambda ps: feed_chunk(ps)) if kind == 'chunk' else (lambda ps: feed_http(kind, ps, mlen))
        one = feed([raw])
        has_substance = kind == 'chunk' or bool(c['msg']['body']) or len(G.all_headers(c['msg'])) >= 2
        acc.size('max_message_len', len(raw))
        all_sets = cut_sets_for(c, raw, mlen, spec['pair_limit'])
        # the cut sets of one message are distinct by construction: counted per message (the message bytes are the key)
        distinct_sets = set(tuple(x) for x in all_sets)
        n_nt = sum(1 for x in distinct_sets if has_substance and any(0 < y < mlen for y in x))
        acc.bulk((raw, spec['pair_limit']), len(all_sets), n_nt, sample=dict(base, cuts=all_sets[min(3, len(all_sets) - 1)]))
        for cuts in all_sets:
            vs = check_cuts(base, cuts, one)
            if vs:
                unl = [v for v in vs if acc.classify(v[0], v[1]) is None]
                c['_cuts'] = cuts
                if unl:
                    return unl[:1]
                for v in vs:
                    acc.excluded[acc.classify(v[0], v[1])] += 1
        acc.label('msg:' + what + ('+proxy-protocol-line' if c.get('pp') is not None else ''))
        return []

    def to_case(c: Dict[str, Any]) -> Dict[str, Any]:
        d = {k: v for k, v in c.items() if k not in ('extra_cuts', '_cuts')}
        d['cuts'] = c.get('_cuts', [])
        return d

    hyp.drive(cases(what), chk, acc, max_examples=spec['examples'], seed=seed, to_case=to_case)


# -- coverage-guided campaign (thorough tier) -----------------------------------------------------------------

def _all_cuts_check(c: Dict[str, Any]) -> List[Any]:
    raw, mlen, kind, _ = case_bytes(c)
    base = {k: v for k, v in c.items() if k != 'extra_cuts'}
    feed = (lambda ps: feed_chunk(ps)) if kind == 'chunk' else (lambda ps: feed_http(kind, ps, mlen))
    one = feed([raw])
    out: List[Any] = []
    for cuts in cut_sets_for(c, raw, mlen, 0):
        out.extend(check_cuts(base, cuts, one))
        if out:
            break
    return out


def fuzz_targets() -> Dict[str, Any]:
    return {w: (cases(w), _all_cuts_check) for w in ('req', 'resp', 'chunk', 'cl0', 'bodyless', 'statusline')}
