"""C01 - relayed byte streams arrive exactly once, in order, unmodified.

Harness K.  A case = (mode, streams, per-peer action scripts (= segmentation + read pacing), proxy-side send caps /
would-block plan, socket buffer size, recv/send buffer flags, schedule).
Oracle: what each receiver has read is always a prefix of what the sender's stream is (plus, for the client of a
tunnel, exactly one 200 acknowledgement head in front); at quiescence, with the receiver still reading and the
sender having sent everything, it is equal.
"""
import struct
from typing import Any, Dict, List, Optional, Tuple

from hypothesis import strategies as st

from vf.core import hyp
from vf.gens import http as G
from vf.harness import k as K

ID = 'C01'
LEVEL = 'exploration'
RULE = ('Hypothesis draws: tunnel (CONNECT, two independent byte streams) or HTTP exchange (one forwarded request, origin '
        'stream = 1..3 well-formed responses: interim 1xx, Content-Length, chunked incl. extensions/trailers, close-delimited '
        'last); per-peer scripts of send(n)/read(n)/idle ops (segmentation and read pacing); per-send caps incl. would-block '
        'for the client-side and upstream-side proxy sockets; SO_SNDBUF; --client-recvbuf-size/--server-recvbuf-size/'
        '--max-sendbuf-size in {1,7,64,4096,default}; the interleaving schedule; who closes after its last byte. '
        'Non-trivial: >= 1 proxy send() was short or would-block AND some direction had >= 2 segments AND >= 1 KiB moved; '
        'distinct by hash of the case.')
ASSUMPTIONS = ['AF_UNIX stream pairs stand in for TCP for send/recv/shutdown/close (TCP pairs are used by the tcp shards)',
               'the harness only restricts what a kernel may do (fewer bytes accepted, would-block)']

_FLAGS: Dict[Any, Any] = {}


def flags_for(opts: Dict[str, Any]) -> Any:
    key = tuple(sorted(opts.items()))
    if key not in _FLAGS:
        argv = ['--threadless']
        for k_, v in opts.items():
            if v is True:
                argv += ['--' + k_.replace('_', '-')]      # a switch (e.g. enable_conn_pool)
            else:
                argv += ['--' + k_.replace('_', '-'), str(v)]
        _FLAGS[key] = K.make_flags(argv)
    return _FLAGS[key]


def stream(n: int, salt: int) -> bytes:
    """Position-dependent bytes: any loss, duplication or reordering changes the stream."""
    if n <= 0:
        return b''
    words = (n + 3) // 4
    return b''.join(struct.pack('>I', ((i + salt) * 2654435761) & 0xFFFFFFFF) for i in range(words))[:n]


def materialise(c: Dict[str, Any]) -> Tuple[bytes, bytes, bytes, Optional[bytes]]:
    """(client stream, request head part of it, origin stream, marker the origin waits for)"""
    def payload(p: Any) -> bytes:
        return p if isinstance(p, bytes) else stream(p['n'], p['salt'])
    if c['mode'] == 'tunnel':
        head = b'CONNECT ' + c['target'] + b' HTTP/1.1\r\nHost: ' + c['target'] + b'\r\n\r\n'
        return head + payload(c['c2o']), head, payload(c['o2c']), None
    req = G.render(c['req'])
    o2c = b''.join((G.render_head(r) if r.get('head_only') else G.render(r)) for r in c['resps']) + payload(c.get('o2c_tail', b''))
    marker = b'\r\n\r\n' + c['req']['body'] if c['req']['framing'] in ('none', 'cl') else b'0\r\n\r\n'
    return req, req, o2c, marker


class AwaitPeer(K.Peer):
    """Peer with two extra ops: ['await_n', n] (read until n bytes arrived) and ['await_marker'] (read until
    self.marker is in the input)."""
    marker: Optional[bytes] = None

    def act(self) -> None:
        if self.sock is not None and not self.closed and not self.script_done:
            op = self.script[self.pc]
            if op[0] == 'await_marker':
                if self.marker is None or self.marker in bytes(self.inbuf) or self.eof_iter is not None:
                    self.pc += 1
                else:
                    self._read_some(1 << 16)
                    if self.marker in bytes(self.inbuf) or self.eof_iter is not None:
                        self.pc += 1
                return
            if op[0] == 'await_ack':
                if b'\r\n\r\n' in bytes(self.inbuf) or self.eof_iter is not None:
                    self.pc += 1
                else:
                    self._read_some(39 if op[1] else 1 << 16)
                    if b'\r\n\r\n' in bytes(self.inbuf) or self.eof_iter is not None:
                        self.pc += 1
                return
        super().act()


def run_case(c: Dict[str, Any]) -> Dict[str, Any]:
    cstream, head, ostream, marker = materialise(c)
    flags = flags_for(c.get('flags', {}))
    w = K.World(flags, tcp=c.get('tcp', False), sndbuf=c.get('sndbuf'), max_iters=c.get('max_iters', 60000))
    # client: first the head in the drawn segments, then (tunnel) wait for the acknowledgement, then the drawn ops
    cscript: List[List[Any]] = []
    pos = 0
    for n in c['head_segs']:
        if pos >= len(head):
            break
        n = min(n, len(head) - pos)
        cscript.append(['send', n])
        pos += n
    if pos < len(head):
        cscript.append(['send', len(head) - pos])
    if c['mode'] == 'tunnel':
        cscript.append(['await_ack', c.get('ack_exact', True)])
    cscript += c['c_ops']
    client = AwaitPeer('client', out=cstream, script=cscript, finish=c.get('c_finish'))
    w.add_client(client, plan={'caps': c.get('caps_client')})
    origin_holder: Dict[str, Any] = {}

    def fac(world: K.World, addr: Tuple[str, int], idx: int) -> Tuple[K.Peer, Optional[Dict[str, Any]]]:
        fin = c.get('o_finish')
        o = AwaitPeer('origin', out=ostream, script=([['await_marker']] if marker else []) + c['o_ops'],
                      finish='close_after_rx' if (fin == 'close' and c['mode'] == 'tunnel') else fin)
        # an origin that closes while the client is still sending to it aborts the exchange (EPIPE/RST): outside C01.
        # In a tunnel it therefore closes only once it has also received everything the client sends.
        o.expect_rx = len(cstream) - len(head)
        o.marker = marker
        origin_holder['o'] = o
        return o, {'caps': c.get('caps_up')}
    w.origin_factory = fac
    w.order = ['client', 'origin']
    w.schedule = c['schedule']
    want_c = len(ostream) + (39 if c['mode'] == 'tunnel' else 0)
    want_o = len(cstream) - len(head) if c['mode'] == 'tunnel' else 0
    w.more_expected = lambda: (len(client.inbuf) < want_c and client.eof_iter is None) or \
        ('o' in origin_holder and len(origin_holder['o'].inbuf) < want_o and origin_holder['o'].eof_iter is None)
    w.run_local()
    origin = origin_holder.get('o')
    res = {
        'world': w, 'client': client, 'origin': origin, 'cstream': cstream, 'head': head, 'ostream': ostream,
        'client_rx': bytes(client.inbuf), 'origin_rx': bytes(origin.inbuf) if origin else b'',
    }
    return res


def evaluate(c: Dict[str, Any]) -> Tuple[List[Any], Dict[str, Any]]:
    r = run_case(c)
    w: K.World = r['world']
    client, origin = r['client'], r['origin']
    out: List[Any] = []
    feat = {'mode': c['mode'], 'o_finish': c.get('o_finish'), 'c_finish': c.get('c_finish')}
    if c['mode'] == 'http':
        feat['resp_kinds'] = sorted(set(_resp_kind(x) for x in c['resps']))
    short = sum(ks.short for ks in w.ksocks)
    moved = len(r['client_rx']) + len(r['origin_rx'])
    info = {'short': short, 'moved': moved, 'iters': w.iter,
            'segs': max(len(c['head_segs']) + sum(1 for o in c['c_ops'] if o[0] == 'send'), sum(1 for o in c['o_ops'] if o[0] == 'send'))}
    try:
        partial = w.budget_exhausted
        if partial:
            # the iteration budget ran out: nothing can be said about completeness, but the prefix laws (what HAS arrived is a
            # prefix of what was sent) are safety statements and are decided on what arrived so far
            info['inconclusive'] = True
            if origin is None:
                return out, info
        elif w.worker_died:
            out.append(('worker-died', dict(feat, exc=_exc(w)), w.exceptions[:2], 'executor keeps running'))
            return out, info
        elif origin is None:
            out.append(('no-upstream-connection', feat, w.connect_log, 'one connect'))
            return out, info
        # ---- upstream -> client
        crx = r['client_rx']
        if c['mode'] == 'tunnel':
            i = crx.find(b'\r\n\r\n')
            if i < 0:
                ack, rest = crx, b''
                if crx and not b'HTTP/1.1 200'.startswith(crx[:12]) and not crx.startswith(b'HTTP/1.1 200'):
                    out.append(('tunnel-ack-malformed', feat, crx[:80], 'HTTP/1.1 200 ... CRLF CRLF'))
            else:
                ack, rest = crx[:i + 4], crx[i + 4:]
                if not ack.startswith(b'HTTP/1.1 200') or ack.count(b'\r\n') != 2:
                    out.append(('tunnel-ack-malformed', feat, ack[:80], 'HTTP/1.1 200 <reason> CRLF CRLF'))
        else:
            rest = crx
        exp = r['ostream']
        if not exp.startswith(rest):
            d = _first_diff(rest, exp)
            out.append(('upstream-to-client-corrupted', feat, {'at': d, 'got': rest[max(0, d - 8):d + 24], 'len': len(rest)},
                        {'want': exp[max(0, d - 8):d + 24], 'len': len(exp)}))
        else:
            sender_done = origin.sent >= len(exp)
            reader_alive = client.read_in_drain and not client.closed
            # A client that closed or half-closed its side has ended the exchange as far as the proxy is concerned
            # (no listed property promises delivery after that): counted as don't-care, only the prefix law applies.
            client_left_early = client.closed or client.shut
            if sender_done and reader_alive and len(rest) < len(exp) and not partial:
                if client_left_early:
                    info['dontcare'] = 'client-closed-or-half-closed-before-delivery'
                else:
                    out.append(('upstream-to-client-incomplete', feat, {'got': len(rest), 'eof_iter': client.eof_iter},
                                {'want': len(exp)}))
        # ---- client -> upstream (tunnels)
        if c['mode'] == 'tunnel':
            orx = r['origin_rx']
            expc = r['cstream'][len(r['head']):]
            if not expc.startswith(orx):
                d = _first_diff(orx, expc)
                out.append(('client-to-upstream-corrupted', feat, {'at': d, 'got': orx[max(0, d - 8):d + 24], 'len': len(orx)},
                            {'want': expc[max(0, d - 8):d + 24], 'len': len(expc)}))
            else:
                sender_done = client.sent >= len(r['cstream'])
                origin_left_early = origin.closed or c.get('o_finish') == 'close'
                if sender_done and not origin_left_early and len(orx) < len(expc) and not partial:
                    if client.closed or client.shut:
                        # sender closed right after its last byte: delivery of bytes still queued inside the proxy at
                        # that moment is promised by no listed property (C07 covers output to the *client* only)
                        info['dontcare'] = 'client-closed-with-bytes-in-flight'
                    else:
                        out.append(('client-to-upstream-incomplete', feat, {'got': len(orx), 'eof_iter': origin.eof_iter},
                                    {'want': len(expc)}))
        return out, info
    finally:
        w.teardown()


def _exc(w: K.World) -> str:
    return w.exceptions[0][1].split(':')[0] if w.exceptions else 'loop-stopped'


def _first_diff(a: bytes, b: bytes) -> int:
    n = min(len(a), len(b))
    for i in range(n):
        if a[i] != b[i]:
            return i
    return n


def _resp_kind(x: Dict[str, Any]) -> str:
    k = x['framing']
    if k == 'chunked':
        if x.get('trailers'):
            k += '+trailers'
        if (x.get('exts') and any(x['exts'])) or x.get('last_ext'):
            k += '+ext'
    if x['code'].startswith(b'1'):
        k = 'interim'
    return k


def replay(case: Dict[str, Any]) -> List[Dict[str, Any]]:
    vs, _ = evaluate(case)
    return [{'property': ID, 'clause': cl, 'features': ft, 'case': case, 'observed': ob, 'expected': ex} for (cl, ft, ob, ex) in vs]


# -- generation --------------------------------------------------------------------------------

SIZES = st.sampled_from([1, 2, 3, 7, 16, 64, 100, 512, 1460, 4096, 16384, 65536, 1 << 20])
BUF = st.sampled_from([1, 7, 64, 4096])


def ops(max_len: int) -> Any:
    op = st.one_of(st.tuples(st.just('send'), SIZES).map(list), st.tuples(st.just('read'), SIZES).map(list),
                   st.just(['idle']))
    return st.lists(op, max_size=max_len)


def caps() -> Any:
    cap = st.sampled_from([0, 0, 1, 2, 5, 64, 1460, 65536, None, None])
    return st.one_of(st.none(), st.lists(cap, min_size=1, max_size=8).filter(lambda l: any(x != 0 for x in l)))


@st.composite
def payloads(draw: Any, big: int) -> Any:
    if draw(st.integers(0, 2)) == 0:
        return draw(st.binary(max_size=64))
    n = draw(st.one_of(st.integers(0, 3000), st.integers(0, big), st.sampled_from([65535, 65536, 65537, 131072, 131073])))
    return {'n': min(n, big), 'salt': draw(st.integers(0, 1000))}


@st.composite
def cases(draw: Any, mode: str, big: int, tcp: bool = False) -> Dict[str, Any]:
    c: Dict[str, Any] = {'mode': mode, 'tcp': tcp}
    fl = {}
    if draw(st.booleans()):
        fl['client_recvbuf_size'] = draw(BUF)
    if draw(st.booleans()):
        fl['server_recvbuf_size'] = draw(BUF)
    if draw(st.booleans()):
        fl['max_sendbuf_size'] = draw(BUF)
    tiny = any(v <= 7 for v in fl.values())
    if draw(st.integers(0, 4)) == 0:
        fl['enable_conn_pool'] = True      # upstream connections acquired from / released to the worker's pool
    if draw(st.integers(0, 4)) == 0:
        fl['enable_events'] = True         # request / response events are published while relaying
    c['flags'] = fl
    if tiny:
        big = min(big, 6000)     # one byte per recv()/send(): keep the run bounded
    c['head_segs'] = draw(st.lists(st.sampled_from([1, 2, 5, 10, 17, 40, 1000]), max_size=6))
    c['c_ops'] = draw(ops(12))
    c['o_ops'] = draw(ops(12))
    c['caps_client'] = draw(caps())
    c['caps_up'] = draw(caps())
    c['sndbuf'] = draw(st.sampled_from([None, None, 4096, 16384]))
    c['schedule'] = draw(st.lists(st.integers(0, 2), max_size=60))
    if mode == 'tunnel':
        c['target'] = draw(st.sampled_from([b'example.test:443', b'10.1.2.3:8443', b'h:1']))
        c['c2o'] = draw(payloads(big))
        c['o2c'] = draw(payloads(big))
        c['ack_exact'] = draw(st.booleans())
        fin = draw(st.sampled_from(['none', 'none', 'none', 'o_close', 'c_shut', 'c_close_on_eof']))
    else:
        c['req'] = draw(G.request_spec(form='absolute', framings=('none', 'cl'), max_body=100,
                                       methods=st.sampled_from([b'GET', b'GET', b'POST', b'PUT', b'HEAD']),
                                       versions=(b'HTTP/1.1', b'HTTP/1.1', b'HTTP/1.0')))
        # persistence as the client asks for it: HTTP/1.0, Connection: close / keep-alive / nothing (what is relayed must not
        # depend on it)
        conn = draw(st.sampled_from([None, None, b'close', b'keep-alive', b'Close']))
        if conn is not None and not any(h[0].lower() == b'connection' for h in c['req']['headers']):
            c['req']['headers'].append([b'Connection', conn, 0])
        is_head = c['req']['method'] == b'HEAD'
        if is_head:
            c['req']['framing'], c['req']['body'] = 'none', b''
        resps = []
        nresp = draw(st.integers(1, 3))
        for i in range(nresp):
            last = i == nresp - 1
            if not last and (is_head or draw(st.integers(0, 2)) == 0):
                r = draw(G.response_spec(framings=('close',), max_body=0, codes=st.sampled_from([100, 102, 103]), max_headers=2,
                                         strict_reason=True))
                r['framing'], r['body'] = 'none', b''
            elif is_head:
                # the (single) final response to HEAD: header block of a Content-Length/chunked response, no body
                r = draw(G.response_spec(framings=('cl', 'chunked'), max_body=300, strict_reason=True))
                r['head_only'] = True
            else:
                kinds = ('cl', 'chunked', 'close') if last else ('cl', 'chunked')
                r = draw(G.response_spec(framings=kinds, max_body=300, strict_reason=True))
            resps.append(r)
        c['resps'] = resps
        c['o2c_tail'] = b''
        if resps[-1]['framing'] == 'close':
            c['o2c_tail'] = draw(payloads(big))
            fin = 'o_close'
        else:
            fin = draw(st.sampled_from(['none', 'none', 'o_close']))
    c['o_finish'] = 'close' if fin == 'o_close' else None
    c['c_finish'] = {'c_shut': 'shut', 'c_close_on_eof': 'close_on_eof'}.get(fin)
    return c


def shards(tier: str) -> List[Dict[str, Any]]:
    q = tier == 'quick'
    out = []
    for i in range(6 if q else 12):
        out.append({'name': 'tunnel-%d' % i, 'mode': 'tunnel', 'examples': 350 if q else 5000, 'big': 1 << 18 if q else 1 << 21})
    for i in range(6 if q else 12):
        out.append({'name': 'http-%d' % i, 'mode': 'http', 'examples': 350 if q else 5000, 'big': 1 << 17 if q else 1 << 21})
    for i in range(2 if q else 4):
        out.append({'name': 'tcp-tunnel-%d' % i, 'mode': 'tunnel', 'tcp': True, 'examples': 150 if q else 2000, 'big': 1 << 18})
        out.append({'name': 'tcp-http-%d' % i, 'mode': 'http', 'tcp': True, 'examples': 150 if q else 2000, 'big': 1 << 17})
    if not q:
        for i in range(4):
            out.append({'name': 'huge-%d' % i, 'mode': 'tunnel', 'examples': 60, 'big': 8 << 20})
    return out


def run_shard(spec: Dict[str, Any], seed: int, acc: Any) -> None:
    def chk(c: Dict[str, Any]) -> List[Any]:
        vs, info = evaluate(c)
        if info.get('inconclusive'):
            acc.dontcare += 1
            acc.label('inconclusive:iteration-budget')
        if info.get('dontcare'):
            acc.dontcare += 1
            acc.label('dontcare:' + info['dontcare'])
        nt = info['short'] >= 1 and info['segs'] >= 2 and info['moved'] >= 1024
        labs = ['mode:' + c['mode'], 'fin:%s/%s' % (c.get('o_finish'), c.get('c_finish'))]
        if info['short']:
            labs.append('had-short-or-blocked-send')
        if c['mode'] == 'http':
            labs += ['resp:' + _resp_kind(x) for x in c['resps']]
            hd = {h[0].lower(): h[1].lower() for h in c['req']['headers']}
            labs.append('req:' + ('http/1.0' if c['req']['version'] == b'HTTP/1.0' else 'connection-' + hd[b'connection'].decode()
                                  if b'connection' in hd else 'http/1.1'))
        if c.get('flags'):
            labs.append('flags:conn-pool' if c['flags'].get('enable_conn_pool') else 'flags:custom-buffers')
            if c['flags'].get('enable_events'):
                labs.append('flags:events')
        acc.case(c, nt, labels=labs)
        acc.size('max_bytes_moved', info['moved'])
        acc.size('max_iterations', info['iters'])
        return vs
    hyp.drive(cases(spec['mode'], spec['big'], spec.get('tcp', False)), chk, acc, max_examples=spec['examples'], seed=seed)
