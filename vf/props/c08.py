"""C08 - with proxy authentication on, unauthenticated requests reach nothing.

Classes (decided from the construction record, not from the proxy's code):
  must-reject : no Proxy-Authorization line carries scheme `basic` (any case) followed by exactly the configured token
  must-accept : every Proxy-Authorization line is `basic` SP+ <configured token> (after OWS trimming), at least one line
  don't-care  : everything else (mixed duplicate lines, non-SP separators, trailing parameters) - counted, not judged
Oracle: must-reject -> the client reads one 407 response (h11) then EOF, zero connect attempts, zero bytes at any
origin, and a recording plugin placed after the auth plugin saw no request hook.  must-accept -> served, and no
Proxy-Authorization field in ANY request any origin receives (first or later on the connection).
TLS-interception tier (harness L of C11: live executor thread with --basic-auth and the CA flags, TLS origin thread): an
authenticated CONNECT, the client's handshake against the generated certificate, then 1..3 requests INSIDE the tunnel each
with its own drawn Proxy-Authorization lines: none of them may reach the origin in what it decrypts; an unauthenticated
CONNECT gets a 407 and the origin sees no connection.
"""
import re
import base64
from typing import Any, Dict, List, Optional, Tuple

from hypothesis import strategies as st

from vf.core import hyp
from vf.gens import http as G
from vf.harness import k as K
from vf.harness.peers import ReactiveOrigin, ReactiveClient
from vf.refs import http_ref as H

ID = 'C08'
LEVEL = 'exploration'
RULE = ('Hypothesis draws the configured credentials (printable, ":" in the password, non-ASCII UTF-8), the first request '
        '(GET/POST/PUT/CONNECT..., absolute or authority target), 0..3 Proxy-Authorization lines built from {right token, '
        'truncated, extended, case-flipped, url-safe alphabet, padding variants, inner whitespace, other credentials, other '
        'scheme, trailing parameters} with any name/scheme casing and spacing, a segmentation, 0..2 follow-up keep-alive '
        'requests (with or without credentials), and whether a recording user plugin is configured; plus live TLS-intercepted '
        'connections (CONNECT credentials x 1..3 inner requests with drawn Proxy-Authorization lines). '
        'Non-trivial: a near-miss token (edit distance <= 2 or re-encoding of the right credentials) or an accepted '
        'connection with >= 2 requests; distinct by case hash.')
ASSUMPTIONS = ['h11 as the independent parser', 'AF_UNIX pairs stand in for TCP',
               'TLS tier: OpenSSL / the ssl module are correct; a 15 s deadline hit is inconclusive']

CALLS: List[Tuple[str, bytes]] = []
_FLAGS: Dict[Any, Any] = {}


def recorder() -> Any:
    if 'rec' in _FLAGS:
        return _FLAGS['rec']
    from proxy.http.proxy import HttpProxyBasePlugin

    class VfRecorder(HttpProxyBasePlugin):
        def before_upstream_connection(self, request: Any) -> Any:
            CALLS.append(('before_upstream_connection', request.method))
            return request

        def handle_client_request(self, request: Any) -> Any:
            CALLS.append(('handle_client_request', request.method))
            return request

        def handle_client_data(self, raw: Any) -> Any:
            CALLS.append(('handle_client_data', b''))
            return raw
    _FLAGS['rec'] = VfRecorder
    return VfRecorder


def flags_for(creds: str, with_recorder: bool, disable: bool = False) -> Any:
    key = (creds, with_recorder, disable)
    if key not in _FLAGS:
        if len(_FLAGS) > 64:
            for k_ in [x for x in _FLAGS if isinstance(x, tuple)]:
                _FLAGS.pop(k_)
        opts: Dict[str, Any] = {'basic_auth': creds}
        if with_recorder:
            opts['plugins'] = [recorder()]
        # the operator may also have disabled headers of his own: that must not change what happens to the credentials
        _FLAGS[key] = K.make_flags(['--threadless'] + (['--disable-headers', 'x-secret,accept-language'] if disable else []), **opts)
    return _FLAGS[key]


def token_of(creds: str) -> bytes:
    return base64.b64encode(creds.encode('utf-8'))


def classify(lines: List[bytes], token: bytes) -> str:
    if not lines:
        return 'must-reject'
    carries = []
    exact = []
    for v in lines:
        v = v.strip(b' \t')
        parts = v.split()
        carries.append(len(parts) >= 2 and parts[0].lower() == b'basic' and parts[1] == token)
        exact.append(re.fullmatch(rb'(?i:basic) +' + re.escape(token), v) is not None)
    if all(exact):
        return 'must-accept'
    if not any(carries):
        return 'must-reject'
    return 'dont-care'


def build_first(c: Dict[str, Any]) -> Tuple[bytes, List[bytes]]:
    method = c['method']
    if method == b'CONNECT':
        target = b'secure.test:443'
        host = target
    else:
        target = b'http://example.test/r0'
        host = b'example.test'
    lines = [method + b' ' + target + b' HTTP/1.1', b'Host: ' + host]
    values = []
    for (name, value, style) in c['auth_lines']:
        lines.append(G.field_line(name, value, style))
        values.append(value)
    for h in c['extra_headers']:
        lines.append(G.field_line(*h))
    body = b''
    if method in (b'POST', b'PUT') and c.get('body'):
        body = c['body']
        lines.append(b'Content-Length: %d' % len(body))
    return b'\r\n'.join(lines) + b'\r\n\r\n' + body, values


def run_case(c: Dict[str, Any]) -> Dict[str, Any]:
    del CALLS[:]
    flags = flags_for(c['creds'], c['recorder'], bool(c.get('disable')))
    w = K.World(flags, max_iters=20000)
    first, values = build_first(c)
    token = token_of(c['creds'])
    reqs: List[Tuple[bytes, List[int]]] = [(first, [x for x in c['cuts'] if 0 < x < len(first)])]
    if c['method'] != b'CONNECT':
        for i, with_cred in enumerate(c['followups']):
            extra = b'Proxy-Authorization: Basic ' + token + b'\r\n' if with_cred else b''
            reqs.append((b'GET http://example.test/r%d HTTP/1.1\r\nHost: example.test\r\n' % (i + 1) + extra + b'\r\n', []))
    client = ReactiveClient('client', reqs)
    w.add_client(client)
    origins: List[ReactiveOrigin] = []

    def fac(world: K.World, addr: Tuple[str, int], idx: int) -> Tuple[K.Peer, Optional[Dict[str, Any]]]:
        o = ReactiveOrigin('origin%d' % idx)
        origins.append(o)
        return o, None
    w.origin_factory = fac
    w.order = ['client', 'origin0']
    w.schedule = c['schedule']
    w.run_local()
    return {'world': w, 'client': client, 'origins': origins, 'values': values, 'token': token, 'nreq': len(reqs),
            'calls': list(CALLS)}


def evaluate(c: Dict[str, Any]) -> Tuple[List[Any], Dict[str, Any]]:
    r = run_case(c)
    w: K.World = r['world']
    client: ReactiveClient = r['client']
    klass = classify(r['values'], r['token'])
    kinds = sorted(set(c.get('kinds', [])))
    feat = {'class': klass, 'method': 'CONNECT' if c['method'] == b'CONNECT' else 'other', 'lines': min(len(r['values']), 2)}
    info = {'class': klass, 'near_miss': any(k_ not in ('right', 'other_scheme', 'other_creds') for k_ in kinds), 'nreq': r['nreq']}
    out: List[Any] = []
    try:
        if w.budget_exhausted:
            info['inconclusive'] = True
            return out, info
        if w.worker_died:
            return [('worker-died', dict(feat, exc=(w.exceptions or [('', 'loop-stopped')])[0][1].split(':')[0]), w.exceptions[:1], None)], info
        got = bytes(client.inbuf)
        origin_bytes = sum(len(o.inbuf) for o in r['origins'])
        if klass == 'must-reject':
            p = H.parse_responses(got, [b'GET' if c['method'] != b'CONNECT' else b'CONNECT'], eof=client.eof_iter is not None)
            if w.connect_log:
                out.append(('upstream-connection-attempted-without-credentials', dict(feat, kinds=kinds), w.connect_log[:2], 'no connect'))
            if origin_bytes:
                out.append(('bytes-forwarded-without-credentials', dict(feat, kinds=kinds), origin_bytes, 0))
            if r['calls']:
                out.append(('later-plugin-hook-ran-without-credentials', dict(feat, kinds=kinds), r['calls'][:4], []))
            if not p.ok or len(p.messages) != 1 or p.messages[0]['code'] != 407:
                out.append(('no-407-response', dict(feat, kinds=kinds), {'h11': repr(p), 'bytes': got[:80]}, '407'))
            elif client.eof_iter is None:
                out.append(('connection-not-closed-after-407', dict(feat, kinds=kinds), None, 'EOF'))
        elif klass == 'must-accept':
            if c['method'] == b'CONNECT':
                if not got.startswith(b'HTTP/1.1 200'):
                    out.append(('valid-credentials-not-served', feat, got[:80], '200 Connection established'))
            else:
                p = H.parse_responses(got, [b'GET'] * r['nreq'], eof=client.eof_iter is not None)
                if not p.ok or len(p.messages) != r['nreq'] or any(m['code'] != 200 for m in p.messages):
                    out.append(('valid-credentials-not-served', dict(feat, answered=len(p.messages) if p.ok else -1),
                                {'h11': repr(p), 'codes': [m['code'] for m in p.messages]}, {'responses': r['nreq']}))
            for o in r['origins']:
                for i, raw in enumerate(o.requests):
                    _, hs, _ = H.split_head(raw)
                    if any(k_.lower() == b'proxy-authorization' for k_, _v in hs):
                        out.append(('credentials-forwarded-to-origin', dict(feat, position='first' if i == 0 else 'later'),
                                    raw[:160], 'no Proxy-Authorization'))
                        break
                if b'proxy-authorization' in o.unparsed.lower():
                    out.append(('credentials-forwarded-to-origin', dict(feat, position='partial'), o.unparsed[:160], None))
        else:
            info['dontcare'] = True
        return out, info
    finally:
        w.teardown()


def replay(case: Dict[str, Any]) -> List[Dict[str, Any]]:
    if case.get('tls'):
        from vf.props import c11
        from vf.harness import k as K_
        try:
            with K_.unpatched():
                vs, _ = tls_evaluate(case)
        finally:
            tls_stop()
            c11.cleanup()
        return [{'property': ID, 'clause': cl, 'features': ft, 'case': case, 'observed': ob, 'expected': ex} for (cl, ft, ob, ex) in vs]
    vs, _ = evaluate(case)
    return [{'property': ID, 'clause': cl, 'features': ft, 'case': case, 'observed': ob, 'expected': ex} for (cl, ft, ob, ex) in vs]


# -- generation ---------------------------------------------------------------------------------

CREDS = st.one_of(
    st.sampled_from(['user:pass', 'u:p', 'admin:s3cr3t:with:colons', 'üser:pässwörd', 'a:' + 'x' * 40, 'user:pa ss', 'u:??>>~~']),
    st.builds(lambda u, p: u + ':' + p, st.text(alphabet='abcXYZ019_-', min_size=1, max_size=8),
              st.text(alphabet='abcXYZ019_-:!?>~ é', min_size=1, max_size=12)))


@st.composite
def auth_value(draw: Any, creds: str) -> Tuple[bytes, str]:
    token = token_of(creds)
    kind = draw(st.sampled_from(['right', 'right', 'right', 'truncated', 'extended', 'caseflip', 'urlsafe', 'padding', 'inner_ws',
                                 'other_creds', 'other_scheme', 'params', 'tab_sep', 'newline_creds', 'prefix', 'empty_token', 'binary_token']))
    scheme = draw(st.sampled_from([b'Basic', b'basic', b'BASIC', b'bAsIc']))
    sep = draw(st.sampled_from([b' ', b' ', b'  ', b'   ']))
    t = token
    if kind == 'truncated':
        t = token[:-1] if len(token) > 1 else b'A'
    elif kind == 'extended':
        t = token + draw(st.sampled_from([b'A', b'=', b'==']))
    elif kind == 'caseflip':
        i = draw(st.integers(0, len(token) - 1))
        ch = token[i:i + 1]
        t = token[:i] + (ch.lower() if ch.isupper() else ch.upper()) + token[i + 1:]
    elif kind == 'urlsafe':
        t = base64.urlsafe_b64encode(creds.encode('utf-8'))
    elif kind == 'padding':
        t = token.rstrip(b'=') if token.endswith(b'=') else token + b'='
    elif kind == 'inner_ws':
        i = draw(st.integers(1, max(1, len(token) - 1)))
        t = token[:i] + b' ' + token[i:]
    elif kind == 'other_creds':
        t = base64.b64encode((creds + 'x').encode('utf-8'))
    elif kind == 'other_scheme':
        scheme = draw(st.sampled_from([b'Bearer', b'Digest', b'Basi', b'Basicx', b'Negotiate']))
    elif kind == 'params':
        t = token + draw(st.sampled_from([b' realm=x', b', x=y', b' ' + token]))
    elif kind == 'tab_sep':
        sep = b'\t'
    elif kind == 'newline_creds':
        t = base64.b64encode((creds + '\n').encode('utf-8'))
    elif kind == 'prefix':
        t = token[:max(1, len(token) // 2)]
    elif kind == 'empty_token':
        t = b''
    elif kind == 'binary_token':
        # well-formed base64 of credentials that are not UTF-8 (latin-1 user name, arbitrary octets)
        t = base64.b64encode(draw(st.sampled_from(['j\u00fcrgen:pass'.encode('latin-1'), b'\xff\xfe:\x80', b'user:pa\xdf'])))
    return scheme + sep + t, kind


@st.composite
def cases(draw: Any) -> Dict[str, Any]:
    creds = draw(CREDS)
    n = draw(st.sampled_from([0, 1, 1, 1, 1, 2, 3]))
    lines = []
    kinds = []
    for _ in range(n):
        v, kind = draw(auth_value(creds))
        lines.append([G._recase(draw, 'Proxy-Authorization').encode(), v, draw(st.integers(0, 3))])
        kinds.append(kind)
    first_len = 400
    c = {'creds': creds, 'method': draw(st.sampled_from([b'GET', b'GET', b'POST', b'PUT', b'CONNECT', b'DELETE', b'OPTIONS'])),
         'auth_lines': lines, 'kinds': kinds, 'extra_headers': draw(G.header_list(0, 3)),
         'body': draw(st.binary(max_size=20)), 'recorder': draw(st.booleans()), 'disable': draw(st.integers(0, 3)) == 0,
         'cuts': draw(st.one_of(st.just([]), st.lists(st.integers(1, first_len), max_size=5), st.just(list(range(1, first_len))))),
         'followups': draw(st.lists(st.booleans(), max_size=2)),
         'schedule': draw(st.lists(st.integers(0, 2), max_size=20))}
    return c


# -- authentication together with TLS interception (harness L of C11: live executor thread, TLS origin thread) --------

_TLS: Dict[str, Any] = {}


def tls_executor() -> Any:
    import os
    from vf.props import c11
    fx = c11.fixture()
    ex = _TLS.get('ex')
    if ex is not None and _TLS.get('pid') == os.getpid() and ex['thread'].is_alive():
        return ex
    import logging
    import threading
    from proxy.common.flag import FlagParser
    from proxy.common.backports import NonBlockingQueue
    from proxy.core.work.fd.local import LocalFdExecutor
    P = fx['P']
    argv = ['--threadless', '--ca-key-file', P('ca-key.pem'), '--ca-cert-file', P('ca-cert.pem'), '--ca-signing-key-file', P('ca-signing-key.pem'),
            '--ca-cert-dir', P('certs'), '--ca-file', P('oca-cert.pem'), '--basic-auth', 'user:pass']
    flags = FlagParser.initialize(argv)
    logging.disable(logging.CRITICAL)
    q = NonBlockingQueue()
    lex = LocalFdExecutor(iid='c08', work_queue=q, flags=flags, event_queue=None)
    th = threading.Thread(target=lex.run, daemon=True)
    th.start()
    ex = {'q': q, 'thread': th, 'ex': lex}
    _TLS.update(ex=ex, pid=os.getpid())
    return ex


def tls_stop() -> None:
    ex = _TLS.pop('ex', None)
    if ex is not None:
        try:
            ex['q'].put(False)
        except Exception:
            pass


def tls_converse(c: Dict[str, Any]) -> Dict[str, Any]:
    """CONNECT (with the drawn Proxy-Authorization lines) -> TLS to the proxy's generated certificate -> 1..3 requests inside
    the tunnel, each with its own drawn Proxy-Authorization lines."""
    import ssl
    import time
    import socket
    from vf.props import c11
    fx = c11.fixture()
    origin = c11.origin_for('good', False)
    origin.response_size = 10
    ex = tls_executor()
    n_before = len(origin.conns)
    a, b = socket.socketpair()
    ex['q'].put((a, ('127.0.0.1', 51008)))
    deadline = time.time() + c11.DEADLINE
    out: Dict[str, Any] = {'stage': 'connect', 'responses': 0}
    try:
        auth = b''.join(ln[0] + b':' + b' ' * ln[2] + ln[1] + b'\r\n' for ln in c['connect_auth'])
        b.sendall(b'CONNECT good.test:%d HTTP/1.1\r\nHost: good.test:%d\r\n' % (origin.port, origin.port) + auth + b'\r\n')
        head, st_ = c11.recv_until(b, lambda x: b'\r\n\r\n' in x, deadline)
        out['connect_reply'] = head[:200]
        if st_ != 'ok' or not head.startswith(b'HTTP/1.1 200'):
            # rejected: must be a 407 followed by EOF
            rest, st2 = c11.recv_until(b, lambda x: False, min(deadline, time.time() + 3.0))
            out['after_reject'] = st2
            return out
        out['stage'] = 'handshake'
        ctx = ssl.create_default_context(cafile=fx['P']('ca-cert.pem'))
        b.settimeout(max(0.5, deadline - time.time()))
        try:
            t = ctx.wrap_socket(b, server_hostname='good.test')
        except (ssl.SSLError, OSError) as e:
            out['handshake'] = 'failed:%s' % type(e).__name__
            return out
        out['stage'] = 'requests'
        for i, lines in enumerate(c['inner_auth']):
            auth = b''.join(ln[0] + b':' + b' ' * ln[2] + ln[1] + b'\r\n' for ln in lines)
            t.sendall(b'GET /inner%d HTTP/1.1\r\nHost: good.test:%d\r\nX-Keep: yes\r\n' % (i, origin.port) + auth + b'\r\n')
            resp, st3 = c11.recv_until(t, lambda x: c11._complete(x), deadline)
            if st3 != 'ok':
                out['response_status'] = st3
                break
            out['responses'] += 1
        out['stage'] = 'done'
        try:
            t.close()
        except OSError:
            pass
        return out
    except OSError as e:
        out['error'] = '%s: %s' % (type(e).__name__, e)
        return out
    finally:
        try:
            b.close()
        except OSError:
            pass
        time.sleep(0.02)
        out['origin_conns'] = [dict(x) for x in origin.conns[n_before:]]
        out['executor_alive'] = ex['thread'].is_alive()


def tls_evaluate(c: Dict[str, Any]) -> Tuple[List[Any], Dict[str, Any]]:
    token = token_of('user:pass')
    cls = classify([ln[1] for ln in c['connect_auth']], token)
    r = tls_converse(c)
    feat = {'class': cls, 'tls_interception': True}
    info = {'class': cls, 'stage': r['stage'], 'inner_with_auth': sum(1 for x in c['inner_auth'] if x)}
    out: List[Any] = []
    if not r['executor_alive']:
        _TLS.pop('ex', None)
        return [('worker-died', feat, r.get('error'), None)], info
    seen = b''.join(x.get('app_bytes', b'') for x in r['origin_conns'])
    if cls == 'must-reject':
        if not r.get('connect_reply', b'').startswith(b'HTTP/1.1 407'):
            out.append(('unauthenticated-not-407', feat, r.get('connect_reply', b'')[:80], b'HTTP/1.1 407'))
        if r['origin_conns']:
            out.append(('upstream-connection-for-unauthenticated-request', feat, len(r['origin_conns']), 0))
        if r.get('after_reject') not in (None, 'eof') and r.get('after_reject', '').startswith('timeout'):
            out.append(('connection-left-open-after-407', feat, r.get('after_reject'), 'eof'))
        return out, info
    if cls == 'dont-care':
        info['dontcare'] = True
        return out, info
    if r['stage'] != 'done' or r['responses'] != len(c['inner_auth']):
        if r.get('response_status') == 'timeout' or r.get('handshake', '').startswith('failed') or r['stage'] == 'connect':
            # not served although authenticated
            out.append(('authenticated-request-not-served', feat, {k_: r.get(k_) for k_ in ('stage', 'connect_reply', 'handshake', 'response_status', 'error')},
                        'served'))
        return out, info
    import re
    leaked = re.findall(rb'(?im)^proxy-authorization[ \t]*:[^\r\n]*', seen)
    if leaked:
        out.append(('credentials-forwarded-to-origin', dict(feat, request='inside-intercepted-tunnel'), leaked[:3], 'no Proxy-Authorization field'))
    if seen.count(b'X-Keep: yes') != len(c['inner_auth']):
        out.append(('intercepted-request-not-forwarded', feat, seen[:200], len(c['inner_auth'])))
    return out, info


def shards(tier: str) -> List[Dict[str, Any]]:
    q = tier == 'quick'
    out = [{'name': 'auth-%02d' % i, 'examples': 380 if q else 6500} for i in range(16)]
    out += [{'name': 'tls-intercepted-%d' % i, 'kind': 'tls', 'examples': 40 if q else 700} for i in range(4)]
    return out


@st.composite
def tls_cases(draw: Any) -> Dict[str, Any]:
    def lines(k: int, right_bias: bool) -> List[List[Any]]:
        res = []
        for _ in range(k):
            v, kind = draw(auth_value('user:pass'))
            if right_bias and draw(st.integers(0, 3)) != 0:
                v = b'Basic ' + token_of('user:pass')
            res.append([G._recase(draw, 'Proxy-Authorization').encode(), v, draw(st.integers(0, 2))])
        return res
    return {'tls': True, 'connect_auth': lines(draw(st.sampled_from([0, 1, 1, 1, 1])), True),
            'inner_auth': [lines(draw(st.sampled_from([0, 1, 1])), False) for _ in range(draw(st.integers(1, 3)))]}


def run_shard(spec: Dict[str, Any], seed: int, acc: Any) -> None:
    if spec.get('kind') == 'tls':
        from vf.props import c11
        from vf.harness import k as K_

        def chk_tls(c: Dict[str, Any]) -> List[Any]:
            vs, info = tls_evaluate(c)
            if info.get('dontcare'):
                acc.dontcare += 1
            acc.case(c, info['class'] == 'must-accept' and info['inner_with_auth'] >= 1 or info['class'] == 'must-reject',
                     labels=['tls-intercepted', 'class:' + info['class'], 'inner-requests-with-credentials:%d' % info['inner_with_auth']])
            return vs
        try:
            with K_.unpatched():
                hyp.drive(tls_cases(), chk_tls, acc, max_examples=spec['examples'], seed=seed, shrink=False)
        finally:
            tls_stop()
            c11.cleanup()
        return

    def chk(c: Dict[str, Any]) -> List[Any]:
        vs, info = evaluate(c)
        labs = ['class:' + info['class'], 'method:' + ('CONNECT' if c['method'] == b'CONNECT' else 'other'),
                'recorder' if c['recorder'] else 'no-recorder'] + (['operator-disabled-headers'] if c.get('disable') else []) + ['kind:' + k_ for k_ in set(c['kinds'])]
        if info.get('dontcare'):
            acc.dontcare += 1
        nt = info['near_miss'] or (info['class'] == 'must-accept' and info['nreq'] >= 2)
        acc.case(c, nt, labels=labs)
        return vs
    hyp.drive(cases(), chk, acc, max_examples=spec['examples'], seed=seed)
