"""C09 - plugins run in configured order with the documented chaining semantics.

"Programs": 1..4 plugins (fixed classes VfP0..VfP3 whose per-hook behaviour is read from a generated table) in any
configured order, optionally behind the auth plugin.  Each hook independently passes, modifies (visible tag), drops
(returns None) or rejects (HttpRequestRejected from a generated table).  Histories: 1..2 requests; endings: normal
(client or origin closes / resets once the exchange is quiescent), rejection, or an abort at a generated iteration.
Oracle: an interpreter of the documented semantics (docstrings of HttpProxyBasePlugin, README "Plugin Ordering")
produces the expected per-hook call sequences with the tags each call must observe, whether an upstream connection
may be attempted and to which address, what the origin must receive, what the client must receive; plus the
lifecycle law: for every connection whose first request completed, on_upstream_connection_close ran exactly once per
plugin and on_access_log once for every plugin up to and including the first that returned None.
Don't-care (docs and code disagree / leave open): whether handle_client_request runs after a
before_upstream_connection drop; whether a rejection in handle_client_request counts as "contacting" upstream (the
connection exists by then) - only "no request byte forwarded" is required.
"""
from typing import Any, Dict, List, Optional, Tuple

from hypothesis import strategies as st

from vf.core import hyp
from vf.harness import k as K
from vf.harness.peers import ReactiveOrigin, ReactiveClient
from vf.refs import http_ref as H

ID = 'C09'
LEVEL = 'exploration'
RULE = ('Hypothesis draws a plugin order (permutation of a subset of 4 plugins), per plugin and hook a behaviour in '
        '{pass, modify, drop, reject} (before_upstream_connection, handle_client_request), {pass, modify, drop} '
        '(handle_upstream_chunk, handle_client_data, on_access_log), an optional resolve_dns override, auth on/off, --enable-proxy-protocol with a valid v1 line (TCP4 / TCP6 / UNKNOWN with and without addresses) on/off, 1..2 '
        'requests, the ending (client/origin close or reset at quiescence, or an abort at a generated iteration) and the '
        'schedule. Non-trivial: >= 2 plugins with >= 1 non-pass behaviour, or an abort ending; distinct by case hash.')
ASSUMPTIONS = ['unique plugin names (documented precondition: the plugin map is keyed by name())', 'AF_UNIX pairs stand in for TCP']

LOG: List[Tuple[int, str, Any]] = []
BEHAV: Dict[int, Dict[str, Any]] = {}
REJ: Dict[str, Any] = {}
_CLS: Dict[str, Any] = {}
_FLAGS: Dict[Any, Any] = {}
LETTERS = b'abcd'


def _tags(request: Any) -> List[str]:
    return sorted(k_.decode() for k_ in (request.headers or {}) if k_.startswith(b'x-tag-'))


def _clone(request: Any) -> Any:
    import copy
    r2 = copy.copy(request)
    r2.headers = dict(request.headers or {})
    return r2


def classes() -> List[Any]:
    if 'p' in _CLS:
        return _CLS['p']
    from proxy.http.proxy import HttpProxyBasePlugin
    from proxy.http.exception import HttpRequestRejected

    def make(idx: int) -> Any:
        class P(HttpProxyBasePlugin):
            IDX = idx

            def name(self) -> str:
                return 'VfP%d' % idx

            def _b(self, hook: str) -> str:
                return BEHAV.get(idx, {}).get(hook, 'pass')

            def resolve_dns(self, host: str, port: int) -> Any:
                LOG.append((idx, 'dns', host))
                return BEHAV.get(idx, {}).get('dns'), None

            def before_upstream_connection(self, request: Any) -> Any:
                LOG.append((idx, 'buc', _tags(request)))
                b = self._b('buc')
                if b == 'mod':
                    # return a NEW object: "each receiving the request as returned by the previous one"
                    request = _clone(request)
                    request.add_header(b'X-Tag-buc-P%d' % idx, b'1')
                elif b == 'drop':
                    return None
                elif b == 'rej':
                    raise HttpRequestRejected(**REJ)
                return request

            def handle_client_request(self, request: Any) -> Any:
                LOG.append((idx, 'hcr', _tags(request)))
                b = self._b('hcr')
                if b == 'mod':
                    request = _clone(request)
                    request.add_header(b'X-Tag-hcr-P%d' % idx, b'1')
                elif b == 'drop':
                    return None
                elif b == 'rej':
                    raise HttpRequestRejected(**REJ)
                return request

            def handle_upstream_chunk(self, chunk: Any) -> Any:
                data = bytes(chunk)
                LOG.append((idx, 'huc', data))
                b = self._b('huc')
                if b == 'mod':
                    return memoryview(data.replace(LETTERS[idx:idx + 1], LETTERS[idx:idx + 1].upper()))
                if b == 'drop':
                    return None
                return chunk

            def handle_client_data(self, raw: Any) -> Any:
                data = bytes(raw)
                LOG.append((idx, 'hcd', data))
                b = self._b('hcd')
                if b == 'mod':
                    return memoryview(data.replace(LETTERS[idx:idx + 1], LETTERS[idx:idx + 1].upper()))
                if b == 'drop':
                    return None
                return raw

            def on_access_log(self, context: Dict[str, Any]) -> Any:
                LOG.append((idx, 'log', sorted(k_ for k_ in context if k_.startswith('vf_'))))
                b = self._b('log')
                if b == 'mod':
                    context['vf_%d' % idx] = 1
                elif b == 'drop':
                    return None
                return context

            def on_upstream_connection_close(self) -> None:
                LOG.append((idx, 'close', None))
        P.__name__ = P.__qualname__ = 'VfP%d' % idx
        return P
    _CLS['p'] = [make(i) for i in range(4)]
    return _CLS['p']


# --enable-proxy-protocol: valid HAProxy v1 lines a load balancer may put ahead of the first request (incl. the address-less
# UNKNOWN form); the hook semantics are the same with or without one
PP_OK = [b'PROXY TCP4 192.0.2.1 192.0.2.2 56324 443\r\n', b'PROXY TCP6 2001:db8::1 2001:db8::2 1 65535\r\n', b'PROXY UNKNOWN\r\n',
         b'PROXY UNKNOWN ffff::1 ffff::2 65535 65535\r\n']


def flags_for(order: Tuple[int, ...], auth: bool, pool: bool = False, pp: bool = False) -> Any:
    key = (order, auth, pool, pp)
    if key not in _FLAGS:
        cl = classes()
        opts: Dict[str, Any] = {'plugins': [cl[i] for i in order]}
        if auth:
            opts['basic_auth'] = 'user:pass'
        _FLAGS[key] = K.make_flags(['--threadless'] + (['--enable-conn-pool'] if pool else []) + (['--enable-proxy-protocol'] if pp else []), **opts)
    return _FLAGS[key]


RESP_BODY = b'abcd-response-body-abcd'
RESPONSE = b'HTTP/1.1 200 OK\r\nContent-Length: %d\r\n\r\n' % len(RESP_BODY) + RESP_BODY
EXTRA_DATA = b'abcd-extra-client-data'


def second_effective(c: Dict[str, Any]) -> bool:
    """A keep-alive client sends its follow-up request only after the first response: that needs the first request to be
    forwarded and no plugin to swallow the response chunk."""
    if not c.get('second') or c.get('connect'):
        return False
    beh = {int(k_): v for k_, v in c['behaviour'].items()}
    for i in c['order']:
        if beh[i].get('buc', 'pass') in ('drop', 'rej'):
            return False
    for i in c['order']:
        if beh[i].get('hcr', 'pass') in ('drop', 'rej'):
            return False
    return all(beh[i].get('huc', 'pass') != 'drop' for i in c['order'])


def model(c: Dict[str, Any]) -> Dict[str, Any]:
    """Interpreter of the documented chaining semantics."""
    order = c['order']
    beh = {int(k_): v for k_, v in c['behaviour'].items()}
    exp: Dict[str, Any] = {'buc': [], 'hcr': [], 'huc': [], 'hcd': [], 'log': [], 'close': sorted(order)}
    tags: List[str] = []
    outcome = 'forward'
    for i in order:
        exp['buc'].append((i, sorted(tags)))
        b = beh[i].get('buc', 'pass')
        if b == 'mod':
            tags.append('x-tag-buc-p%d' % i)
        elif b == 'drop':
            outcome = 'no-upstream'
            break
        elif b == 'rej':
            outcome = 'rejected-before-connect'
            break
    exp['connect'] = None
    if outcome == 'forward':
        ip = None
        for i in order:
            ip = beh[i].get('dns')
            if ip:
                break
        exp['connect'] = (ip or 'example.test', 443 if c.get('connect') else 80)
        for i in order:
            exp['hcr'].append((i, sorted(tags)))
            b = beh[i].get('hcr', 'pass')
            if b == 'mod':
                tags.append('x-tag-hcr-p%d' % i)
            elif b == 'drop':
                outcome = 'request-dropped'
                break
            elif b == 'rej':
                outcome = 'rejected-after-connect'
                break
    exp['outcome'] = outcome
    exp['forwarded_tags'] = sorted(tags) if outcome == 'forward' else None
    # a follow-up (keep-alive) request on the same connection: only handle_client_request runs again, in order, each
    # plugin receiving the request as returned by the previous one
    exp['hcr2'], exp['outcome2'], exp['forwarded_tags2'] = [], None, None
    if second_effective(c):
        tags2: List[str] = []
        outcome2 = 'forward'
        for i in order:
            exp['hcr2'].append((i, sorted(tags2)))
            b = beh[i].get('hcr', 'pass')
            if b == 'mod':
                tags2.append('x-tag-hcr-p%d' % i)
            elif b == 'drop':
                outcome2 = 'request-dropped'
                break
            elif b == 'rej':
                outcome2 = 'rejected-after-connect'
                break
        exp['outcome2'] = outcome2
        exp['forwarded_tags2'] = sorted(tags2) if outcome2 == 'forward' else None
    # response path
    exp['client'] = None
    if outcome == 'forward' and c.get('connect'):
        exp['client'] = b'TUNNEL-ACK'      # the proxy's own 200; nothing is forwarded, the origin (silent here) sends nothing
    elif outcome == 'forward':
        data: Optional[bytes] = RESPONSE
        for i in order:
            exp['huc'].append((i, data))
            b = beh[i].get('huc', 'pass')
            if b == 'mod':
                data = data.replace(LETTERS[i:i + 1], LETTERS[i:i + 1].upper())     # type: ignore[union-attr]
            elif b == 'drop':
                data = None
                break
        exp['client'] = data or b''
    if outcome == 'no-upstream':
        data = EXTRA_DATA
        for i in order:
            exp['hcd'].append((i, data))
            b = beh[i].get('hcd', 'pass')
            if b == 'mod':
                data = data.replace(LETTERS[i:i + 1], LETTERS[i:i + 1].upper())     # type: ignore[union-attr]
            elif b == 'drop':
                break
        exp['client'] = b''
    # lifecycle
    ctx: List[str] = []
    for i in order:
        exp['log'].append((i, sorted(ctx)))
        b = beh[i].get('log', 'pass')
        if b == 'mod':
            ctx.append('vf_%d' % i)
        elif b == 'drop':
            break
    return exp


def run_case(c: Dict[str, Any]) -> Dict[str, Any]:
    del LOG[:]
    BEHAV.clear()
    BEHAV.update({int(k_): v for k_, v in c['behaviour'].items()})
    REJ.clear()
    REJ.update(c['reject'])
    flags = flags_for(tuple(c['order']), c['auth'], bool(c.get('pool')), c.get('pp') is not None)
    w = K.World(flags, max_iters=20000)
    auth = b'Proxy-Authorization: Basic dXNlcjpwYXNz\r\n' if c['auth'] else b''
    if c.get('connect'):
        req = b'CONNECT example.test:443 HTTP/1.1\r\nHost: example.test:443\r\n' + auth + b'\r\n'
    else:
        req = b'GET http://example.test/x HTTP/1.1\r\nHost: example.test\r\n' + auth + b'\r\n'
    if c.get('pp') is not None:
        req = PP_OK[c['pp'] % len(PP_OK)] + req
    reqs = [(req, c['cuts'])]
    if second_effective(c):
        reqs.append((b'GET http://example.test/second HTTP/1.1\r\nHost: example.test\r\n' + auth + b'\r\n', []))
    client = ReactiveClient('client', reqs)
    w.add_client(client)
    origins: List[K.Peer] = []

    def fac(world: K.World, addr: Tuple[str, int], idx: int) -> Tuple[K.Peer, Optional[Dict[str, Any]]]:
        o = ReactiveOrigin('origin', responder=lambda o_, raw, n: RESPONSE)
        origins.append(o)
        return o, None
    w.origin_factory = fac
    w.order = ['client', 'origin']
    w.schedule = c['schedule']
    ending = c['ending']
    state = {'extra_sent': False}

    def send_extra(world: K.World) -> None:
        # after a before_upstream_connection drop: further client bytes go to handle_client_data
        if not client.closed and client.eof_iter is None:
            client.out += EXTRA_DATA
            state['extra_sent'] = True

    def end(world: K.World) -> None:
        who = origins[0] if (ending.startswith('origin') and origins) else client
        if who.sock is None or who.closed:
            who = client
        if who.sock is None:
            return
        state['ended'] = True
        if ending.endswith('reset'):
            who.do_reset()
        else:
            who.do_close()

    def end_client(world: K.World) -> None:
        # whatever happened before: the connection is over once the client has gone
        if client.sock is not None and not client.closed:
            client.do_close()
    if c.get('shutdown_raises'):
        # the peer has reset the connection: the proxy's own shutdown(SHUT_WR) fails with ENOTCONN, as on a real TCP stack
        w.global_fault_fn = lambda ks, op: 'ENOTCONN' if op == 'shutdown' else None
    if c.get('abort_at') is not None:
        def tick(world: K.World) -> None:
            if world.iter >= c['abort_at'] and not state.get('ended'):
                end(world)
        w.on_iteration = tick
        w.at_quiescence = [end_client]
    else:
        w.at_quiescence = [send_extra, end, end_client]
    w.run_local()
    return {'world': w, 'client': client, 'origins': origins, 'log': list(LOG), 'extra_sent': state['extra_sent']}


def evaluate(c: Dict[str, Any]) -> Tuple[List[Any], Dict[str, Any]]:
    r = run_case(c)
    w: K.World = r['world']
    exp = model(c)
    log = r['log']
    beh = {int(k_): v for k_, v in c['behaviour'].items()}
    nonpass = sum(1 for i in c['order'] for h, b in beh[i].items() if b not in ('pass', None))
    abort = c.get('abort_at') is not None
    feat = {'outcome': exp['outcome'], 'abort': abort, 'auth': c['auth'], 'ending': c['ending'] if not abort else 'abort',
            'shutdown_raises': bool(c.get('shutdown_raises')), 'pool': bool(c.get('pool')), 'connect': bool(c.get('connect'))}
    info = {'nonpass': nonpass, 'plugins': len(c['order']), 'abort': abort, 'outcome': exp['outcome']}
    out: List[Any] = []

    def calls(hook: str) -> List[Tuple[int, Any]]:
        return [(i, x) for (i, h, x) in log if h == hook]
    try:
        if w.budget_exhausted:
            info['inconclusive'] = True
            return out, info
        if w.worker_died:
            return [('worker-died', dict(feat, exc=(w.exceptions or [('', 'loop-stopped')])[0][1].split(':')[0]), w.exceptions[:1], None)], info
        first_complete = bool(calls('buc'))     # the chain starts exactly when the first request is complete
        if not abort:
            if not first_complete:
                return [('plugin-chain-never-ran', feat, None, exp['buc'])], info
            # (a)+(b) order and data flow
            if calls('buc') != exp['buc']:
                out.append(('before_upstream_connection-chain', feat, calls('buc'), exp['buc']))
            if exp['outcome'] != 'no-upstream' and calls('hcr') != exp['hcr'] + exp['hcr2']:
                which = 'first' if calls('hcr')[:len(exp['hcr'])] != exp['hcr'] else 'follow-up'
                out.append(('handle_client_request-chain', dict(feat, request=which), calls('hcr'), exp['hcr'] + exp['hcr2']))
            # (c) connect
            conns = [x['addr'] for x in w.connect_log]
            if exp['connect'] is None and conns:
                out.append(('upstream-contacted-despite-drop-or-reject', feat, conns, []))
            if exp['connect'] is not None and conns != [exp['connect']]:
                if c.get('pool') and len(conns) == 1 and conns[0][1] == exp['connect'][1] and conns[0][0] == 'example.test':
                    # --enable-conn-pool keys upstream connections by the request's own host: what resolve_dns returned is not
                    # used for pooled connections.  The listed property speaks of the request chain and of the lifecycle hooks;
                    # resolve_dns under the (experimental) pool is counted, not judged
                    info['dontcare'] = 'resolve_dns-under-conn-pool'
                else:
                    out.append(('wrong-upstream-connection', feat, conns, [exp['connect']]))
            # (d) forwarded request
            fwd = bytes(r['origins'][0].inbuf) if r['origins'] else b''
            if c.get('connect') and exp['outcome'] == 'forward':
                if fwd not in (b'', EXTRA_DATA):      # (the harness' client sends EXTRA_DATA through the tunnel at quiescence)
                    out.append(('bytes-sent-into-a-fresh-tunnel', feat, fwd[:120], b''))
            elif exp['forwarded_tags'] is None:
                # (CONNECT: the request itself is never forwarded; what the harness' client sends later, at quiescence, is not "that
                # request" - whether a tunnel whose CONNECT a plugin dropped still carries bytes is not stated by the property)
                if fwd and not (c.get('connect') and fwd == EXTRA_DATA):
                    out.append(('request-forwarded-despite-drop-or-reject', feat, fwd[:120], b''))
            else:
                p = H.parse_requests(fwd)
                got_tags = sorted(k_.lower().decode() for m in p.messages[:1] for k_, _v in m['headers'] if k_.lower().startswith(b'x-tag-')) \
                    if p.ok and p.messages else None
                if got_tags != exp['forwarded_tags']:
                    out.append(('forwarded-request-lacks-plugin-modifications', dict(feat, request='first'), got_tags, exp['forwarded_tags']))
                if exp['outcome2'] is not None and p.ok:
                    second = p.messages[1:2]
                    if exp['forwarded_tags2'] is None:
                        if second or p.partial:
                            out.append(('request-forwarded-despite-drop-or-reject', dict(feat, request='follow-up'), fwd[-120:], None))
                    else:
                        got2 = sorted(k_.lower().decode() for m in second for k_, _v in m['headers'] if k_.lower().startswith(b'x-tag-')) if second else None
                        if got2 != exp['forwarded_tags2']:
                            out.append(('forwarded-request-lacks-plugin-modifications', dict(feat, request='follow-up'), got2, exp['forwarded_tags2']))
            # (e) client output
            got = bytes(r['client'].inbuf)
            if exp['outcome'].startswith('rejected'):
                pr = H.parse_responses(got, [b'GET'], eof=True)
                rej = c['reject']
                ok = pr.ok and len(pr.messages) == 1
                if ok:
                    m = pr.messages[0]
                    hd = {k_.lower(): v for k_, v in m['headers']}
                    ok = m['code'] == rej['status_code'] and m['reason'] == (rej.get('reason') or b'') and m['body'] == (rej.get('body') or b'') \
                        and all(hd.get(k_.lower()) == v for k_, v in (rej.get('headers') or {}).items())
                if not ok:
                    out.append(('rejection-response-differs', feat, got[:200], rej))
                if r['client'].eof_iter is None:
                    out.append(('connection-open-after-rejection', feat, None, 'EOF'))
            elif exp['outcome'] == 'forward' and c.get('connect'):
                if not (got.startswith(b'HTTP/1.1 200') and got.endswith(b'\r\n\r\n') and got.count(b'\r\n\r\n') == 1):
                    out.append(('tunnel-acknowledgement-differs', feat, got[:160], 'HTTP/1.1 200 ... CRLF CRLF and nothing else'))
            elif exp['outcome'] == 'forward':
                n_resp = 2 if exp['outcome2'] == 'forward' else 1
                if calls('huc') != exp['huc'] * n_resp and all(x == RESPONSE for i_, x in calls('huc') if i_ == c['order'][0]):
                    out.append(('handle_upstream_chunk-chain', feat, calls('huc'), exp['huc'] * n_resp))
                want_client = exp['client'] * n_resp
                if exp['outcome2'] == 'rejected-after-connect':
                    if not got.startswith(want_client) or r['client'].eof_iter is None:
                        out.append(('follow-up-rejection-not-delivered', feat, got[:160], want_client[:80]))
                elif got != want_client:
                    out.append(('client-output-differs', feat, got[:120], want_client[:120]))
            elif exp['outcome'] == 'no-upstream' and r['extra_sent']:
                if calls('hcd') != exp['hcd']:
                    out.append(('handle_client_data-chain', feat, calls('hcd'), exp['hcd']))
        # (f) lifecycle - for every ending
        if first_complete:
            closes = sorted(i for i, _ in calls('close'))
            if closes != exp['close']:
                out.append(('on_upstream_connection_close-not-exactly-once', feat, closes, exp['close']))
            if calls('log') != exp['log']:
                out.append(('on_access_log-chain', feat, calls('log'), exp['log']))
        return out, info
    finally:
        w.teardown()


def replay(case: Dict[str, Any]) -> List[Dict[str, Any]]:
    vs, _ = evaluate(case)
    return [{'property': ID, 'clause': cl, 'features': ft, 'case': case, 'observed': ob, 'expected': ex} for (cl, ft, ob, ex) in vs]


# -- generation -----------------------------------------------------------------------------------

B4 = st.sampled_from(['pass', 'pass', 'mod', 'drop', 'rej'])
B3 = st.sampled_from(['pass', 'pass', 'mod', 'drop'])


@st.composite
def cases(draw: Any) -> Dict[str, Any]:
    order = draw(st.permutations([0, 1, 2, 3]))[:draw(st.integers(1, 4))]
    beh = {}
    # a third of the programs are "follow-up focused": the first exchange goes through, so that a second request is sent
    # on the same connection and handle_client_request chains again
    followup_focus = draw(st.integers(0, 2)) == 0
    for i in order:
        if followup_focus:
            beh[str(i)] = {'buc': draw(st.sampled_from(['pass', 'mod'])), 'hcr': draw(st.sampled_from(['pass', 'mod', 'mod'])),
                           'huc': draw(st.sampled_from(['pass', 'mod'])), 'hcd': 'pass', 'log': draw(B3), 'dns': None}
        else:
            beh[str(i)] = {'buc': draw(B4), 'hcr': draw(B4), 'huc': draw(B3), 'hcd': draw(B3), 'log': draw(B3),
                           'dns': draw(st.sampled_from([None, None, None, '10.9.9.%d' % (i + 1)]))}
    rej = {'status_code': draw(st.sampled_from([403, 418, 451, 500])), 'reason': draw(st.sampled_from([b'Nope', b'I am a teapot'])),
           'headers': draw(st.sampled_from([None, {b'X-Reason': b'policy'}, {b'X-A': b'1', b'Retry-After': b'5'}])),
           'body': draw(st.sampled_from([None, b'', b'rejected by plugin', b'x' * 3000]))}
    abort = draw(st.integers(0, 4)) == 0
    c = {'order': list(order), 'behaviour': beh, 'reject': rej, 'auth': draw(st.booleans()),
         'cuts': draw(st.one_of(st.just([]), st.lists(st.integers(1, 80), max_size=3))),
         'ending': draw(st.sampled_from(['client_close', 'client_reset', 'origin_close', 'origin_reset'])),
         'abort_at': draw(st.integers(1, 25)) if abort else None,
         'shutdown_raises': draw(st.integers(0, 3)) == 0,
         'pool': draw(st.integers(0, 3)) == 0,
         'connect': draw(st.integers(0, 3)) == 0,
         'pp': draw(st.integers(0, len(PP_OK) - 1)) if draw(st.integers(0, 4)) == 0 else None,
         'second': True if followup_focus else draw(st.booleans()),
         'schedule': draw(st.lists(st.integers(0, 2), max_size=25))}
    return c


def shards(tier: str) -> List[Dict[str, Any]]:
    q = tier == 'quick'
    return [{'name': 'programs-%02d' % i, 'examples': 330 if q else 5500} for i in range(16)]


def run_shard(spec: Dict[str, Any], seed: int, acc: Any) -> None:
    def chk(c: Dict[str, Any]) -> List[Any]:
        vs, info = evaluate(c)
        labs = ['outcome:' + info['outcome'], 'plugins:%d' % info['plugins'], 'ending:' + ('abort' if info['abort'] else c['ending']),
                'requests:%d' % (2 if second_effective(c) else 1)] + (['own-shutdown-raises'] if c.get('shutdown_raises') else []) + (['conn-pool'] if c.get('pool') else []) + (['method:CONNECT'] if c.get('connect') else []) + (['proxy-protocol-line:%d' % c['pp']] if c.get('pp') is not None else [])
        if info.get('inconclusive') or info.get('dontcare'):
            acc.dontcare += 1
        acc.case(c, (info['plugins'] >= 2 and info['nonpass'] >= 1) or info['abort'], labels=labs)
        return vs
    hyp.drive(cases(), chk, acc, max_examples=spec['examples'], seed=seed)
