"""C05 - one connection cannot take down or stall the executor serving the others.

One well-behaved *canary* conversation (forward POST, tunnel echo, web route, reverse route) shares the worker with one
*adversary* connection, interleaved by a generated schedule, and is followed by a *subsequent* canary.  The adversary is
 (i)   arbitrary / mutated bytes (the generators of C06);
 (ii)  a valid conversation in any role aborted at every point: a fault-free dry run numbers every interposed socket
       call the proxy makes on the adversary's sockets (client side and upstream side) and the check ENUMERATES
       (call ordinal k) x (errno in ECONNRESET, EPIPE, ETIMEDOUT, EHOSTUNREACH, ECONNABORTED, ENOBUFS, EAGAIN), plus
       (peer action index) x (client close / half-close / reset, origin close / reset), plus connect refused / timed
       out / unresolvable / unreachable;
 (iii) an unexpected exception raised by a user plugin hook (every hook) or by a web route plugin while the
       adversary's request is handled.
Oracle: (1) the executor's run() is still running when the script ends; (2) differential: the canary's transcript
(bytes the client read, bytes its origin read, EOF) equals the transcript of the same canary alone in a fresh
executor - for the concurrent canary and for the subsequent one; (3) hence no stall of a canary.
"""
import os
from typing import Any, Dict, List, Optional, Tuple

from hypothesis import strategies as st

from vf.core import hyp
from vf.gens import http as G
from vf.harness import k as K
from vf.harness.peers import ReactiveOrigin, ReactiveClient, tag_response
from vf.props.c01 import stream, AwaitPeer

ID = 'C05'
LEVEL = 'fault_enumeration'
ERRNOS = ['ECONNRESET', 'EPIPE', 'ETIMEDOUT', 'EHOSTUNREACH', 'ECONNABORTED', 'ENOBUFS', 'EAGAIN']
PEER_FAULTS = ['client_close', 'client_shut', 'client_reset', 'origin_close', 'origin_reset']
CONNECT_FAULTS = ['refused', 'timeout', 'gaierror', 'unreachable']
HOOKS = ['before_upstream_connection', 'handle_client_request', 'handle_upstream_chunk', 'on_access_log',
         'on_upstream_connection_close', 'resolve_dns', 'handle_client_data', 'web_route']
ROLES = ['forward', 'tunnel', 'web', 'reverse']
ADV_ROLES = ROLES + ['reverse-keepalive']
RULE = ('enumeration: for each (canary role, adversary role, schedule pattern) a fault-free dry run counts the socket calls on the '
        'adversary sockets and the adversary peer actions; every (call ordinal x errno), (action index x peer fault), connect '
        'fault and plugin-hook exception is then run; sampled: Hypothesis-drawn byte adversaries and random schedules. '
        'Non-trivial: the fault actually fired (or the adversary bytes reached the proxy) while the canary still had bytes in '
        'flight; distinct by case hash.')
EXPLANATION = ('exhaustive_subspaces names the (canary, adversary, schedule) scenarios whose k x fault grids were enumerated completely')
ASSUMPTIONS = ['injected errnos are ones the socket layer documents for send/recv; after a fatal one the socket is shut down',
               'AF_UNIX pairs stand in for TCP']

_F: Dict[str, Any] = {}
_ALONE: Dict[str, Any] = {}


def flags() -> Any:
    if _F.get('pid') != os.getpid():
        from vf.props import c04, c07
        from proxy.http.proxy import HttpProxyBasePlugin

        class VfExplode(HttpProxyBasePlugin):
            """Raises RuntimeError in the hook named by the request's X-Explode header."""
            mode = None

            def name(self) -> str:
                return 'VfExplode'

            def _boom(self, hook: str) -> None:
                if self.mode == hook:
                    raise RuntimeError('plugin failure in ' + hook)

            def before_upstream_connection(self, request: Any) -> Any:
                if request.has_header(b'x-explode'):
                    self.mode = request.header(b'x-explode').decode()
                self._boom('before_upstream_connection')
                return request

            def handle_client_request(self, request: Any) -> Any:
                self._boom('handle_client_request')
                return request

            def handle_upstream_chunk(self, chunk: Any) -> Any:
                self._boom('handle_upstream_chunk')
                return chunk

            def handle_client_data(self, raw: Any) -> Any:
                self._boom('handle_client_data')
                return raw

            def on_access_log(self, context: Any) -> Any:
                self._boom('on_access_log')
                return context

            def on_upstream_connection_close(self) -> None:
                self._boom('on_upstream_connection_close')

            def resolve_dns(self, host: str, port: int) -> Any:
                self._boom('resolve_dns')
                return None, None
        _F['pid'] = os.getpid()
        _F['explode'] = VfExplode
        _F['f'] = K.make_flags(['--threadless', '--enable-web-server', '--enable-static-server', '--static-server-dir', c07.static_dir(),
                                '--enable-reverse-proxy'], plugins=[c07.route_plugin(), c04._reverse_plugin(), VfExplode])
    return _F['f']


# -- conversations ----------------------------------------------------------------------------------

def conversation(role: str, who: str, explode: Optional[str] = None, big: bool = False) -> Dict[str, Any]:
    """Client bytes and what kind of origin the role needs.  `who` in ('canary', 'adv', 'canary2')."""
    host = {'canary': 'canary.test', 'adv': 'adv.test', 'canary2': 'canary2.test'}[who]
    x = (b'X-Explode: ' + explode.encode() + b'\r\n') if explode else b''
    body = stream(3000 if not big else 1500000, len(who))
    if role == 'forward':
        req = b'POST http://%s/%s HTTP/1.1\r\nHost: %s\r\n%sContent-Length: %d\r\n\r\n' % (host.encode(), who.encode(), host.encode(), x, len(body)) + body
        return {'requests': [req], 'tunnel': None}
    if role == 'tunnel':
        req = b'CONNECT %s:443 HTTP/1.1\r\nHost: %s:443\r\n%s\r\n' % (host.encode(), host.encode(), x)
        return {'requests': [req], 'tunnel': body}
    if role == 'web':
        path = b'/gen/%d/%d/3' % (5000, len(who)) if explode != 'web_route' else b'/gen/not-a-number/0/1'
        return {'requests': [b'GET ' + path + b' HTTP/1.1\r\nHost: localhost\r\n\r\n'], 'tunnel': None}
    if role == 'reverse-keepalive':
        # several sequential requests on one reverse-proxy connection: the plugin replaces its upstream connection for each
        one = b'POST /rb/adv HTTP/1.1\r\nHost: front.test\r\nContent-Length: %d\r\n\r\n' % len(body) + body
        return {'requests': [one, one, one], 'tunnel': None}
    if role == 'reverse':
        path = b'/ra/%s' % who.encode() if who != 'adv' else b'/rb/adv'
        return {'requests': [b'POST ' + path + b' HTTP/1.1\r\nHost: front.test\r\nContent-Length: %d\r\n\r\n' % len(body) + body], 'tunnel': None}
    raise ValueError(role)


class TunnelClient(AwaitPeer):
    pass


def make_client(name: str, conv: Dict[str, Any]) -> K.Peer:
    if conv['tunnel'] is not None:
        head = conv['requests'][0]
        c = TunnelClient(name, out=head + conv['tunnel'], script=[['send', len(head)], ['await_ack', False], ['send', 1000], ['send', 5000]])
        return c
    return ReactiveClient(name, [(r, [len(r) // 2]) for r in conv['requests']])


def echo_origin(name: str) -> K.Peer:
    class Echo(K.Peer):
        def on_data(self) -> None:
            self.out += bytes(self.inbuf[len(self.out):])
    return Echo(name)


def build_world(c: Dict[str, Any], alone: Optional[str] = None) -> Tuple[K.World, Dict[str, Any]]:
    w = K.World(flags(), max_iters=15000, settle=6)
    parts: Dict[str, Any] = {'origins': {}}
    canary_role = c['canary']
    who_list = [alone] if alone else ['canary', 'adv']
    for who in who_list:
        if who == 'adv':
            adv = c['adv']
            if adv['kind'] == 'bytes':
                data = adv['data']
                pieces = G.cut(data, [x % max(1, len(data)) for x in adv.get('cuts', [])])
                peer: K.Peer = K.Peer('adv', out=data, script=[['send', len(p)] for p in pieces], finish=adv.get('finish'))
            else:
                peer = make_client('adv', conversation(adv['role'], 'adv', adv.get('explode'), big=bool(adv.get('stuck_origin'))))
                if adv.get('slow_reader'):
                    # never reads its response: the proxy keeps output pending for it for as long as it lives
                    peer.read_in_drain = False
                    if isinstance(peer, ReactiveClient):
                        peer.act = (lambda p=peer: (p._send_some(None) if p.seg_i >= len(p.segments) else ReactiveClient.act_no_read(p)))     # type: ignore[method-assign]
            plan = None
            if adv.get('v6'):
                w.add_client(peer, plan=plan, addr=('::1', 51000, 0, 0))      # an IPv6 peer: accept() reports a 4-tuple
            else:
                w.add_client(peer, plan=plan)
            parts['adv'] = peer
        else:
            peer = make_client(who, conversation(canary_role, who))
            w.add_client(peer)
            parts[who] = peer

    def fac(world: K.World, addr: Tuple[str, int], idx: int) -> Tuple[K.Peer, Optional[Dict[str, Any]]]:
        host = addr[0]
        if alone:
            owner = alone
        elif host == 'canary2.test' or (host == 'ua.test' and canary_role == 'reverse' and parts['origins'].get('canary')):
            owner = 'canary2'      # reverse role: canary and its successor share the upstream host; told apart by order
        elif host == 'canary.test' or (host == 'ua.test' and canary_role == 'reverse'):
            owner = 'canary'
        else:
            owner = 'adv'          # whatever else is dialled was asked for by the adversary
        role = c['adv']['role'] if owner == 'adv' and c['adv']['kind'] != 'bytes' else canary_role
        name = 'origin:%s#%d' % (host, idx)
        # responses must not depend on connection numbering (it differs between the alone run and the shared run)
        if owner == 'adv' and c['adv'].get('stuck_origin'):
            # accepts the connection and never reads: the proxy's upstream send buffer fills up under a 1.5 MB upload
            o: K.Peer = K.Peer(name, read_in_drain=False)
        elif owner == 'adv' and c['adv'].get('slow_reader'):
            # a large answer, then the origin closes: the upstream side of the adversary is over while its client side
            # still has megabytes pending
            o = ReactiveOrigin(name, responder=lambda o_, raw, n: tag_response(host, n, raw, extra_body=stream(400000, 9), close=True),
                                       finish='close_after_rx')
            o.expect_rx = 1
        else:
            o = echo_origin(name) if (role == 'tunnel' and addr[1] == 443) else \
                ReactiveOrigin(name, responder=lambda o_, raw, n: tag_response(host, n, raw))
        parts['origins'].setdefault(owner, []).append(o)
        if name not in world.order:
            world.order.append(name)
        return o, None
    w.origin_factory = fac
    return w, parts


def transcript(parts: Dict[str, Any], who: str) -> Dict[str, Any]:
    peer = parts.get(who)
    if peer is None:
        return {}
    owner = 'canary' if who in ('canary',) else who
    origins = parts['origins'].get(owner, [])
    if who == 'canary' and not origins:
        origins = parts['origins'].get('canary', [])
    return {'client_rx': bytes(peer.inbuf), 'client_eof': peer.eof_iter is not None,
            'origin_rx': [bytes(o.inbuf) for o in origins]}


def alone_transcript(role: str, who: str) -> Dict[str, Any]:
    key = '%s/%s/%d' % (role, who, os.getpid())
    if key not in _ALONE:
        c = {'canary': role}
        w, parts = build_world(c, alone=who)
        w.order = [who]
        w.run_local()
        t = transcript(parts, who)
        if w.worker_died or w.budget_exhausted:
            raise RuntimeError('canary %s alone does not complete: %r' % (key, w.exceptions))
        w.teardown()
        _ALONE[key] = t
    return _ALONE[key]


SCHED_PATTERNS = {'canary-opens-early-sends-late': [1, 2, 2, 2, 2, 2, 2, 2, 2, 0, 0, 2, 2, 2, 2], 'adv-first': [2] * 6 + [1, 2] * 20, 'canary-first': [1] * 6 + [2, 1] * 20, 'alternate': [1, 2, 3, 4] * 15,
                  'origins-late': [1, 2, 1, 2, 1, 2, 0, 0, 3, 4, 3, 4] * 5}


def run_case(c: Dict[str, Any], dry: bool = False) -> Dict[str, Any]:
    # reference runs first: a nested run inside the run under test would reset the harness' current world
    alone_transcript(c['canary'], 'canary')
    alone_transcript(c['canary'], 'canary2')
    w, parts = build_world(c)
    adv = c['adv']
    state = {'adv_calls': 0, 'fired': False, 'canary_inflight_at_fault': False, 'adv_actions': 0}
    fault = None if dry else c.get('fault')

    def is_adv_sock(ks: K.KSock) -> bool:
        if ks.kname == 'client:adv':
            return True
        if ks.kname.startswith('upstream:'):
            idx = int(ks.kname.split(':')[1])
            return world_conn_owner(w, idx) == 'adv'
        return False

    def gfault(ks: K.KSock, op: str) -> Optional[str]:
        if not is_adv_sock(ks):
            return None
        k_ = state['adv_calls']
        state['adv_calls'] += 1
        if fault and fault['type'] == 'errno' and fault['k'] == k_:
            state['fired'] = True
            state['canary_inflight_at_fault'] = canary_inflight()
            return fault['errno']
        return None
    w.global_fault_fn = gfault

    def canary_inflight() -> bool:
        t = alone_transcript(c['canary'], 'canary')
        p = parts['canary']
        return p.sock is not None and len(p.inbuf) < len(t['client_rx'])
    # peer-action faults: performed right before the adversary peer's k-th move
    advp = parts['adv']
    orig_act = advp.act

    def adv_act() -> None:
        k_ = state['adv_actions']
        state['adv_actions'] += 1
        if fault and fault['type'] == 'peer' and fault['k'] == k_:
            state['fired'] = True
            state['canary_inflight_at_fault'] = canary_inflight()
            origins = parts['origins'].get('adv', [])
            target = origins[0] if (fault['what'].startswith('origin') and origins) else advp
            if fault['what'].endswith('reset'):
                target.do_reset()
            elif fault['what'].endswith('shut'):
                target.do_shut()
            else:
                target.do_close()
            return
        orig_act()
    advp.act = adv_act     # type: ignore[method-assign]
    if fault and fault['type'] == 'connect':
        orig_on_connect = w.on_connect

        def on_connect(addr: Any, source_address: Any, **kw: Any) -> Any:
            if addr[0] not in ('canary.test', 'canary2.test', 'ua.test'):
                w.connect_plan[len(w.connect_log)] = fault['what']
                state['fired'] = True
                state['canary_inflight_at_fault'] = canary_inflight()
            return orig_on_connect(addr, source_address, **kw)
        w.on_connect = on_connect     # type: ignore[method-assign]
    if adv['kind'] == 'bytes' or adv.get('explode'):
        state['fired'] = True
    # who moves first inside one loop iteration decides the order in which the executor sees the events (and, e.g.,
    # which work gets a descriptor number another one has just released)
    w.order = ['adv', 'canary'] if c.get('adv_first') else ['canary', 'adv']
    sched = list(c.get('schedule') or SCHED_PATTERNS[c.get('pattern', 'alternate')])
    if c.get('adv_first'):
        sched = [{1: 2, 2: 1}.get(x, x) for x in sched]     # keep the pattern's meaning (1 = canary, 2 = adversary)
    w.schedule = sched

    def open_canary2(world: K.World) -> None:
        conv = conversation(c['canary'], 'canary2')
        p = make_client('canary2', conv)
        world.add_client(p, addr=('127.0.0.1', 50002))
        parts['canary2'] = p
        # normally the adversary is over by now as far as the harness is concerned; a lingering adversary (slow reader)
        # stays connected while the subsequent connection is accepted and served
        if advp.sock is not None and not advp.closed and not c['adv'].get('slow_reader'):
            advp.do_close()
    w.at_quiescence = [open_canary2]
    if adv.get('reaped'):
        # the adversary goes silent for longer than --timeout: the idle sweep ends it (and the canary's finished keep-alive
        # connection); the connection accepted afterwards must be served as usual
        w.reaper_period = 20

        def idle_jump(world: K.World) -> None:
            K.CLOCK.offset += 3600.0
        w.at_quiescence = [idle_jump, open_canary2]
    w.run_local()
    if adv.get('reaped'):
        K.CLOCK.offset = 0.0
    return {'world': w, 'parts': parts, 'state': state}


def world_conn_owner(w: K.World, idx: int) -> str:
    if idx < len(w.connect_log):
        host = w.connect_log[idx]['addr'][0]
        return 'canary' if host in ('canary.test', 'canary2.test', 'ua.test') else 'adv'
    return '?'


def evaluate(c: Dict[str, Any]) -> Tuple[List[Any], Dict[str, Any]]:
    r = run_case(c)
    w: K.World = r['world']
    parts = r['parts']
    st_ = r['state']
    adv = c['adv']
    f = c.get('fault') or {}
    feat = {'canary': c['canary'], 'adv': (adv['kind'] if adv['kind'] == 'bytes' else adv['role'] + ('+stuck-origin' if adv.get('stuck_origin') else '')) + ('+reaped' if adv.get('reaped') else '') + ('+ipv6-peer' if adv.get('v6') else ''),
            'fault': f.get('type', 'plugin' if adv.get('explode') else 'none'),
            'what': f.get('errno') or f.get('what') or adv.get('explode')}
    info = {'fired': st_['fired'], 'inflight': st_['canary_inflight_at_fault'] or adv['kind'] == 'bytes' or bool(adv.get('explode')),
            'calls': st_['adv_calls'], 'actions': st_['adv_actions']}
    out: List[Any] = []
    try:
        if w.budget_exhausted:
            info['inconclusive'] = True
            return out, info
        if w.worker_died:
            exc = (w.exceptions or [('', 'loop-stopped')])[0][1]
            out.append(('worker-died', dict(feat, exc=exc.split(':')[0]), {'exceptions': w.exceptions[:2], 'k': f.get('k')}, 'executor keeps running'))
            return out, info
        for who in ('canary', 'canary2'):
            want = alone_transcript(c['canary'], who)
            got = transcript(parts, who)
            if who == 'canary2' and 'canary2' not in parts:
                out.append(('subsequent-connection-never-served', feat, None, None))
                continue
            if adv.get('reaped') and who == 'canary':
                # the clock jump that reaps the silent adversary also makes the canary's own finished keep-alive connection idle
                # for an hour: that it is closed too is the canary's own doing, not the adversary's
                got = dict(got, client_eof=want.get('client_eof'))
            if got != want:
                diff = [k_ for k_ in want if got.get(k_) != want[k_]]
                out.append(('%s-transcript-differs-from-running-alone' % ('concurrent' if who == 'canary' else 'subsequent'),
                            dict(feat, fields=diff),
                            {k_: (got.get(k_) if not isinstance(got.get(k_), bytes) else {'len': len(got[k_]), 'tail': got[k_][-40:]}) for k_ in diff},
                            {k_: (want[k_] if not isinstance(want[k_], bytes) else {'len': len(want[k_])}) for k_ in diff}))
        # "the worker keeps running": a blocking-mode socket call that met a full kernel buffer would hold the single worker
        # thread - and every connection it serves - for the socket timeout (10 s); the design avoids that by sending only
        # once per readiness report.  Stalls on the adversary's sockets while other connections exist are reported.
        st_adv = [s_ for s_ in w.stalls if s_['sock'] == 'client:adv' or (s_['sock'].startswith('upstream:') and
                                                                        world_conn_owner(w, int(s_['sock'].split(':')[1])) == 'adv')]
        if st_adv:
            out.append(('worker-stalled-in-blocking-call-for-the-adversary', dict(feat, op=st_adv[0]['op']),
                        {'stalls': len(st_adv), 'first': st_adv[0]}, 'no blocking call on a socket that is not ready'))
        return out, info
    finally:
        w.teardown()


def replay(case: Dict[str, Any]) -> List[Dict[str, Any]]:
    if case.get('tls_listener'):
        from vf.props import c05_tls, c11
        try:
            with K.unpatched():
                vs, _ = c05_tls.evaluate(case)
        finally:
            c05_tls.stop()
            c11.cleanup()
        return [{'property': ID, 'clause': cl, 'features': ft, 'case': case, 'observed': ob, 'expected': ex} for (cl, ft, ob, ex) in vs]
    vs, _ = evaluate(case)
    return [{'property': ID, 'clause': cl, 'features': ft, 'case': case, 'observed': ob, 'expected': ex} for (cl, ft, ob, ex) in vs]


# -- enumeration / generation ------------------------------------------------------------------

def shards(tier: str) -> List[Dict[str, Any]]:
    q = tier == 'quick'
    out = []
    patterns = ['alternate', 'adv-first', 'canary-opens-early-sends-late'] if q else list(SCHED_PATTERNS)
    for crole in (ROLES if not q else ['forward', 'tunnel', 'web', 'reverse']):
        for arole in ADV_ROLES:
            out.append({'name': 'enum-%s-vs-%s' % (crole, arole), 'kind': 'enum', 'canary': crole, 'adv_role': arole, 'patterns': patterns})
    for i in range(4 if q else 12):
        out.append({'name': 'bytes-%d' % i, 'kind': 'bytes', 'examples': 400 if q else 6000})
    for i in range(2 if q else 6):
        out.append({'name': 'random-faults-%d' % i, 'kind': 'random', 'examples': 400 if q else 6000})
    for i in range(3 if q else 9):
        out.append({'name': 'interleavings-%d' % i, 'kind': 'interleave', 'examples': 500 if q else 8000})
    for i in range(2 if q else 6):
        out.append({'name': 'tls-listener-%d' % i, 'kind': 'tlslive', 'examples': 30 if q else 250})
    return out


def run_shard(spec: Dict[str, Any], seed: int, acc: Any) -> None:
    from vf.props import c07
    if spec['kind'] == 'tlslive':
        from vf.props import c05_tls, c11
        advs = st.one_of(st.just(['canary']), st.just(['canary']),
                         st.tuples(st.just('adv'), st.sampled_from(['plaintext', 'close', 'partial', 'garbage']), st.binary(min_size=1, max_size=60)).map(list))
        # the silent adversary costs seconds: at most one per case, in one case out of eight
        strat = st.builds(lambda steps, silent, pos: {'tls_listener': True,
                                                      'steps': (steps[:pos % (len(steps) + 1)] + [['silent']] + steps[pos % (len(steps) + 1):]) if silent == 0 else steps},
                          st.lists(advs, min_size=2, max_size=6), st.integers(0, 7), st.integers(0, 6))

        def chk_tls(c: Dict[str, Any]) -> List[Any]:
            vs, info = c05_tls.evaluate(c)
            if info.get('inconclusive'):
                acc.dontcare += 1
            acc.case(c, info['canaries'] >= 1 and len(info['kinds']) >= 2, labels=['tls-listener'] + ['adv:' + k_ for k_ in info['kinds'] if k_ != 'canary'])
            return vs
        try:
            with K.unpatched():
                hyp.drive(strat, chk_tls, acc, max_examples=spec['examples'], seed=seed, shrink=False)
        finally:
            c05_tls.stop()
            c11.cleanup()
        return
    try:
        if spec['kind'] == 'enum':
            for pattern in spec['patterns']:
                base = {'canary': spec['canary'], 'adv': {'kind': 'conv', 'role': spec['adv_role']}, 'pattern': pattern}
                dry = run_case(base, dry=True)
                ncalls, nacts = dry['state']['adv_calls'], dry['state']['adv_actions']
                dry['world'].teardown()
                cases: List[Dict[str, Any]] = [dict(base), dict(base, adv_first=True)]
                for k_ in range(ncalls):
                    for e in ERRNOS:
                        cases.append(dict(base, fault={'type': 'errno', 'k': k_, 'errno': e}))
                for k_ in range(nacts):
                    for pf in PEER_FAULTS:
                        cases.append(dict(base, fault={'type': 'peer', 'k': k_, 'what': pf}))
                if spec['adv_role'] != 'web':
                    for cf in CONNECT_FAULTS:
                        cases.append(dict(base, fault={'type': 'connect', 'what': cf}))
                if spec['adv_role'] == 'forward':
                    slow = dict(base, adv={'kind': 'conv', 'role': 'forward', 'slow_reader': True})
                    cases.append(slow)
                    for k_ in range(0, nacts, 2):
                        for pf in ('origin_close', 'origin_reset', 'client_shut'):
                            cases.append(dict(slow, fault={'type': 'peer', 'k': k_, 'what': pf}))
                cases.append(dict(base, adv={'kind': 'conv', 'role': spec['adv_role'], 'v6': True}))
                # the adversary falls silent (after its exchange, or - as bytes - in the middle of a request) and is reaped
                cases.append(dict(base, adv={'kind': 'conv', 'role': spec['adv_role'], 'reaped': True}))
                cases.append(dict(base, adv={'kind': 'bytes', 'role': spec['adv_role'], 'data': b'GET http://adv.test/half HTTP/1.1\r\nHost: adv', 'cuts': [],
                                             'finish': None, 'reaped': True}))
                if spec['adv_role'] in ('forward', 'reverse', 'tunnel'):
                    # the adversary uploads 1.5 MB to an origin that accepts and never reads
                    stuck = dict(base, adv={'kind': 'conv', 'role': spec['adv_role'], 'stuck_origin': True})
                    cases.append(stuck)
                    cases.append(dict(stuck, adv_first=True))
                for h in HOOKS:
                    if (h == 'web_route') == (spec['adv_role'] == 'web') and spec['adv_role'] in ('forward', 'tunnel', 'web'):
                        cases.append(dict(base, adv={'kind': 'conv', 'role': spec['adv_role'], 'explode': h}))
                for c in cases:
                    vs, info = evaluate(c)
                    f = c.get('fault') or {}
                    acc.case(c, bool(info['fired'] and info['inflight']),
                             labels=('fault:' + f.get('type', 'plugin' if c['adv'].get('explode') else 'none'),
                                     'fired' if info['fired'] else 'not-fired', 'canary:' + c['canary'], 'adv:' + c['adv']['role']))
                    if info.get('inconclusive'):
                        acc.dontcare += 1
                    for (cl, ft, ob, ex) in vs:
                        acc.fail(c, cl, ft, ob, ex)
                acc.exhaustive_parts.append('canary=%s adversary=%s schedule=%s: %d socket calls x %d errnos + %d peer actions x %d peer faults '
                                            '+ connect faults + plugin hooks' % (spec['canary'], spec['adv_role'], pattern, ncalls, len(ERRNOS),
                                                                               nacts, len(PEER_FAULTS)))
            return
        from vf.props import c06

        if spec['kind'] == 'bytes':
            @st.composite
            def strat(draw: Any) -> Dict[str, Any]:
                ic = draw(c06.input_cases(draw(st.sampled_from(['random', 'mutated', 'mutated']))))
                data = ic['data'] if ic['what'] == 'random' else c06.mutate(G.render(ic['req']), ic['muts'])
                return {'canary': draw(st.sampled_from(ROLES)), 'adv': {'kind': 'bytes', 'data': data, 'cuts': ic['cuts'],
                                                                       'finish': draw(st.sampled_from([None, 'close', 'shut']))},
                        'schedule': draw(st.lists(st.integers(0, 4), max_size=40))}
        elif spec['kind'] == 'interleave':
            @st.composite
            def strat(draw: Any) -> Dict[str, Any]:
                # no injected fault: two (or three) well-formed conversations, only the interleaving varies
                return {'canary': draw(st.sampled_from(ROLES)), 'adv': {'kind': 'conv', 'role': draw(st.sampled_from(ADV_ROLES + ['reverse-keepalive'] * 3))},
                        'adv_first': draw(st.booleans()), 'schedule': draw(st.lists(st.integers(0, 4), max_size=40))}
        else:
            @st.composite
            def strat(draw: Any) -> Dict[str, Any]:
                arole = draw(st.sampled_from(ADV_ROLES))
                ft = draw(st.sampled_from(['errno', 'errno', 'peer', 'connect']))
                if ft == 'errno':
                    fault = {'type': 'errno', 'k': draw(st.integers(0, 40)), 'errno': draw(st.sampled_from(ERRNOS))}
                elif ft == 'peer':
                    fault = {'type': 'peer', 'k': draw(st.integers(0, 12)), 'what': draw(st.sampled_from(PEER_FAULTS))}
                else:
                    fault = {'type': 'connect', 'what': draw(st.sampled_from(CONNECT_FAULTS))}
                advd = {'kind': 'conv', 'role': arole, 'slow_reader': arole == 'forward' and draw(st.booleans())}
                if not advd['slow_reader'] and arole in ('forward', 'reverse', 'tunnel') and draw(st.integers(0, 5)) == 0:
                    advd['stuck_origin'] = True
                return {'canary': draw(st.sampled_from(ROLES)), 'adv': advd,
                        'fault': fault, 'adv_first': draw(st.booleans()),
                        'schedule': draw(st.lists(st.integers(0, 4), max_size=60))}

        def chk(c: Dict[str, Any]) -> List[Any]:
            vs, info = evaluate(c)
            if info.get('inconclusive'):
                acc.dontcare += 1
            acc.case(c, bool(info['fired'] and info['inflight']), labels=('kind:' + spec['kind'], 'fired' if info['fired'] else 'not-fired',
                                                                         'canary:' + c['canary']))
            return vs
        hyp.drive(strat(), chk, acc, max_examples=spec['examples'], seed=seed, max_rounds=8)
    finally:
        c07.cleanup_static()
        _F.clear()
        _ALONE.clear()
