"""C14 - the proxy connects to exactly the host and port the request-target names.

Targets are generated from the URI grammar restricted to http and authority forms: hosts = reg-names (letters,
digits, '-', '.', IDNA a-labels, raw UTF-8 labels), IPv4 literals, bracketed IPv6 literals in full / compressed /
embedded-IPv4 spellings; port absent / 0 / 1..65535; optional userinfo; path/query with reserved characters;
origin-form, absolute-form, authority-form (CONNECT); plus damaged variants.
Level 1 (parser): HttpParser's host/port/path equal the construction record and urllib.parse.urlsplit
(host modulo brackets and case; default port 80, 443 for CONNECT).
Level 2 (system): the request goes through the real proxy plugin and the REAL new_socket_connection whose `socket`
module is a recording shim: the OS-level connect is made to exactly (host without brackets, port), literals through a
socket of the right family, names through create_connection; the origin reads the origin-form of the same target.
Damaged targets: an error response or close and NO connection attempt to anything; the worker stays alive.
"""
import socket
from urllib.parse import urlsplit
from typing import Any, Dict, List, Optional, Tuple

from hypothesis import strategies as st

from vf.core import hyp
from vf.harness import k as K
from vf.harness.peers import ReactiveOrigin
from vf.refs import http_ref as H

ID = 'C14'
LEVEL = 'exploration'
RULE = ('Hypothesis draws (form, userinfo?, host kind, port?, path, query) and renders the request-target, and draws the Host field (unrelated / the authority of the target / same host with another port / same host without port); damaged variants '
        'mutate a valid target (unbalanced bracket, non-numeric / > 65535 port, empty host, two "@", stray ":"). '
        'Every case is checked at parser level and through the proxy at system level. '
        'Non-trivial: IPv6 literal, explicit non-default port, userinfo or IDNA/UTF-8 host; distinct by target bytes.')
ASSUMPTIONS = ['urllib.parse.urlsplit as the independent URL parser', 'ipaddress/libc decide what a literal is',
               'the socket-module shim records the family and address tuple the real new_socket_connection hands to the OS']

_FLAGS: Dict[str, Any] = {}

V6 = ['::1', '::', '2001:db8::1', '2001:0db8:0000:0000:0000:ff00:0042:8329', '2001:db8:0:0:0:ff00:42:8329', 'fe80::1',
      '::ffff:192.0.2.128', '64:ff9b::192.0.2.33', '2001:DB8::A', '1::', '::2:3:4:5:6:7:8', '1:2:3:4:5:6:7:8']
V4 = ['127.0.0.1', '10.0.0.1', '192.0.2.55', '0.0.0.0', '255.255.255.255', '1.2.3.4']
NAMES = ['example.test', 'a', 'a-b.example.test', 'xn--bcher-kva.example', 'EXAMPLE.Test', 'h1.h2.h3.h4.test', '1234.test',
         'localhost', 'bücher.example', '例え.テスト']


def flags(pool: bool = False) -> Any:
    if pool:
        if 'pool' not in _FLAGS:
            from proxy.plugin.proxy_pool import ProxyPoolPlugin
            _FLAGS['pool'] = K.make_flags(['--threadless', '--proxy-pool', 'pool.test:3128'], plugins=[ProxyPoolPlugin])
        return _FLAGS['pool']
    if 'f' not in _FLAGS:
        _FLAGS['f'] = K.make_flags(['--threadless'])
    return _FLAGS['f']



def host_header(c: Dict[str, Any]) -> bytes:
    """The Host field of the examined request: unrelated, the target's authority, or the target's host with ANOTHER port / without
    one.  The request-target alone says where the request goes (RFC 7230 5.4: a proxy ignores Host for an absolute-form target)."""
    kind = c.get('host_header') or 'other'
    if kind == 'other':
        return b'whatever.test'
    h = c['host'].encode()
    if c['hkind'] == 'v6':
        h = b'[' + h.strip(b'[]') + b']'
    if kind == 'same':
        return h + (b':%d' % c['port'] if c['port'] is not None else b'')
    if kind == 'same-no-port':
        return h
    eff = c['port'] if c['port'] is not None else (443 if c['form'] == 'authority' else 80)
    return h + b':%d' % (8081 if eff != 8081 else 8082)      # same-other-port


def check_via_pool(c: Dict[str, Any], target: bytes, feat: Dict[str, Any]) -> List[Any]:
    """The same target through an upstream proxy (ProxyPoolPlugin): the only connection goes to the pool member, and the
    request it receives must still name the host and port the client named."""
    K.install_real_connect()
    connect = c['form'] == 'authority'
    w = K.World(flags(pool=True), max_iters=4000, settle=5)
    req = (b'CONNECT ' if connect else b'GET ') + target + b' HTTP/1.1\r\nHost: ' + host_header(c) + b'\r\n\r\n'
    client = K.Peer('client', out=req, script=[['send', len(req)]])
    w.add_client(client)
    pools: List[K.Peer] = []

    def fac(world: K.World, addr: Tuple[str, int], idx: int) -> Tuple[K.Peer, Optional[Dict[str, Any]]]:
        o = K.Peer('pool%d' % idx)
        pools.append(o)
        return o, None
    w.origin_factory = fac
    w.order = ['client', 'pool0']
    w.run_local()
    out: List[Any] = []
    try:
        f2 = dict(feat, via_pool=True)
        if w.worker_died:
            return [('worker-died', dict(f2, exc=(w.exceptions or [('', 'loop-stopped')])[0][1].split(':')[0]), {'target': target}, None)]
        log = [x for x in w.connect_log if not str(x.get('result', '')).startswith('os-refused')]
        if [tuple(x['addr']) for x in log] != [('pool.test', 3128)]:
            return [('pool-member-not-the-only-connection', f2, [x['addr'] for x in log], [('pool.test', 3128)])]
        line = bytes(pools[0].inbuf).split(b'\r\n', 1)[0]
        parts = line.split(b' ')
        exp = expected(c)
        if len(parts) != 3 or parts[0] != (b'CONNECT' if connect else b'GET'):
            return [('request-to-pool-member-malformed', f2, line[:120], None)]
        view = urllib_view(parts[1], connect)
        default = 443 if connect else 80
        if view is None or view[0].lower() != exp['host'].lower() or (view[1] if view[1] is not None else default) != exp['port']:
            out.append(('pool-member-asked-for-another-endpoint', f2, {'target': target, 'forwarded': parts[1]}, (exp['host'], exp['port'])))
        return out
    finally:
        w.teardown()


def render_target(c: Dict[str, Any]) -> bytes:
    """Assemble the target from its components; a damage is applied to the component it names."""
    d = c.get('damage')
    host = c['host']
    h = ('[%s]' % host) if c['hkind'] == 'v6' else host
    if d == 'unbalanced-bracket':
        h = h[:-1] if c['hkind'] == 'v6' else '[' + h
    elif d == 'empty-host':
        h = ''
    userinfo = c.get('userinfo')
    if d == 'two-at':
        userinfo = 'a@b'
    port = None if c.get('port') is None else '%d' % c['port']
    if d in ('port-not-a-number', 'port-too-large', 'port-negative', 'stray-colon'):
        port = {'port-not-a-number': '8o8o', 'port-too-large': '70000', 'port-negative': '-1', 'stray-colon': '80:80'}[d]
    if d == 'empty-host' and port is None:
        port = '80'
    auth = h.encode('utf-8')
    if userinfo:
        auth = userinfo.encode() + b'@' + auth
    if port is not None:
        auth += b':' + port.encode()
    if c['form'] == 'authority':
        return auth
    t = b'http://' + auth + c['path'].encode()
    if c.get('query') is not None:
        t += b'?' + c['query'].encode()
    return t


def expected(c: Dict[str, Any]) -> Dict[str, Any]:
    connect = c['form'] == 'authority'
    port = c['port'] if c.get('port') is not None else (443 if connect else 80)
    path = None
    if not connect:
        path = (c['path'] or '/').encode() + ((b'?' + c['query'].encode()) if c.get('query') is not None else b'')
    return {'host': c['host'], 'port': port, 'path': path}


def urllib_view(target: bytes, connect: bool) -> Optional[Tuple[str, Optional[int], str]]:
    try:
        u = urlsplit(('//' if connect else '') + target.decode('utf-8'))
        return (u.hostname or '', u.port, (u.path or '') + (('?' + u.query) if u.query or target.endswith(b'?') else ''))
    except ValueError:
        return None


def check_parser(c: Dict[str, Any], target: bytes, feat: Dict[str, Any]) -> List[Any]:
    from proxy.http.parser import HttpParser
    connect = c['form'] == 'authority'
    raw = (b'CONNECT ' if connect else b'GET ') + target + b' HTTP/1.1\r\nHost: ' + (host_header(c) if c.get('host_header') else b'x') + b'\r\n\r\n'
    try:
        p = HttpParser.request(raw)
    except Exception as e:
        if c.get('damage'):
            return []
        return [('valid-target-rejected-by-parser', dict(feat, exc=type(e).__name__), {'target': target, 'err': repr(e)}, expected(c))]
    if c.get('damage'):
        return []       # judged at system level (error response / no connect)
    exp = expected(c)
    got_host = (p.host or b'').decode('utf-8', 'replace')
    out = []
    if got_host.strip('[]').lower() != exp['host'].lower():
        out.append(('parser-host-differs', feat, {'target': target, 'host': got_host}, exp['host']))
    if p.port != exp['port']:
        out.append(('parser-port-differs', feat, {'target': target, 'port': p.port}, exp['port']))
    if not connect and (p.path or b'/') != exp['path']:
        out.append(('parser-path-differs', feat, {'target': target, 'path': p.path}, exp['path']))
    uv = urllib_view(target, connect)
    if uv is not None and not out:
        uh, uport, upath = uv
        if uh.lower() != got_host.strip('[]').lower() or (uport if uport is not None else (443 if connect else 80)) != p.port:
            out.append(('parser-disagrees-with-urllib', feat, {'target': target, 'proxy': (got_host, p.port), 'urllib': (uh, uport)}, None))
    return out


def check_system(c: Dict[str, Any], target: bytes, feat: Dict[str, Any]) -> List[Any]:
    K.install_real_connect()
    connect = c['form'] == 'authority'
    w = K.World(flags(), max_iters=4000, settle=5)
    req = (b'CONNECT ' if connect else b'GET ') + target + b' HTTP/1.1\r\nHost: ' + host_header(c) + b'\r\n\r\n'
    client = K.Peer('client', out=req, script=[['send', len(req)]])
    prior = c.get('prior') if not c.get('damage') else None
    if prior:
        # an earlier connection of the same worker to the SAME host on ANOTHER port (still being served when the examined
        # request arrives): where the examined request is dialled must not depend on it
        h = ('[%s]' % c['host']) if c['hkind'] == 'v6' else c['host']
        auth0 = h.encode('utf-8') + b':%d' % prior['port']
        req0 = (b'CONNECT ' + auth0 if prior['form'] == 'authority' else b'GET http://' + auth0 + b'/prior') + b' HTTP/1.1\r\nHost: whatever.test\r\n\r\n'
        client0 = K.Peer('client0', out=req0, script=[['send', len(req0)]])
        w.add_client(client0)
        w.at_quiescence = [lambda world: world.add_client(client) or world.order.insert(0, 'client')]
    else:
        w.add_client(client)
    origins: List[ReactiveOrigin] = []

    def fac(world: K.World, addr: Tuple[str, int], idx: int) -> Tuple[K.Peer, Optional[Dict[str, Any]]]:
        o = ReactiveOrigin('origin%d' % idx)
        origins.append(o)
        return o, None
    w.origin_factory = fac
    w.order = ['client', 'origin0'] if not prior else ['client0', 'origin0', 'origin1']
    w.run_local()
    out: List[Any] = []
    try:
        if w.worker_died:
            return [('worker-died', dict(feat, exc=(w.exceptions or [('', 'loop-stopped')])[0][1].split(':')[0]), {'target': target}, None)]
        got = bytes(client.inbuf)
        log = [x for x in w.connect_log if not str(x.get('result', '')).startswith('os-refused')]
        if c.get('damage'):
            # what the OS itself refuses (port out of range, a string that cannot be a host name) is not a connection;
            # anything that would really have been dialled is mis-routing
            if log:
                out.append(('damaged-target-was-dialled', feat, {'target': target, 'connects': [(x.get('via'), x.get('raw_addr')) for x in log]}, 'no connection'))
            pr = H.parse_responses(got, [b'CONNECT' if connect else b'GET'], eof=client.eof_iter is not None)
            if not log and not ((pr.ok and pr.messages and pr.messages[0]['code'] >= 400) or (client.eof_iter is not None and not got)):
                out.append(('damaged-target-neither-rejected-nor-closed', feat, {'target': target, 'client': got[:80]}, '4xx/5xx or close'))
            return out
        exp = expected(c)
        if prior:
            if not log or tuple(log[0].get('raw_addr') or ())[:2] != (exp['host'], prior['port']) and \
                    (str((log[0].get('raw_addr') or ('',))[0]).lower(), (log[0].get('raw_addr') or (0, 0))[1]) != (exp['host'].lower(), prior['port']):
                return [('prior-connection-not-dialled-as-named', feat, {'connects': [(x.get('via'), x.get('raw_addr')) for x in log]},
                         (exp['host'], prior['port']))]
            log = log[1:]
            origins = origins[1:]
        if c.get('port') == 0 and not log:
            # port 0 is valid grammar but not connectable: refusing it (error response or close, no connect) is
            # "rejected rather than mis-routed"
            pr = H.parse_responses(got, [b'CONNECT' if connect else b'GET'], eof=client.eof_iter is not None)
            if (pr.ok and pr.messages and pr.messages[0]['code'] >= 400) or (client.eof_iter is not None and not got):
                return out
        if len(log) != 1:
            return [('no-or-several-connection-attempts', feat, {'target': target, 'connects': [(x.get('via'), x.get('raw_addr')) for x in log],
                                                                 'client': got[:60]}, {'connect': (exp['host'], exp['port'])})]
        e = log[0]
        kind = c['hkind']
        if kind == 'v4':
            want = ('socket.connect', int(socket.AF_INET), (exp['host'], exp['port']))
        elif kind == 'v6':
            want = ('socket.connect', int(socket.AF_INET6), (exp['host'], exp['port'], 0, 0))
        else:
            want = ('socket.create_connection', None, (exp['host'], exp['port']))
        gotc = (e.get('via'), e.get('family'), tuple(e.get('raw_addr') or ()))
        if kind == 'name':
            ok = gotc[0] == want[0] and gotc[2][0].lower() == want[2][0].lower() and gotc[2][1] == want[2][1]
        else:
            ok = gotc == want
        if not ok:
            out.append(('connected-to-wrong-endpoint', feat, {'target': target, 'connect': gotc}, want))
        if not connect and origins:
            line = bytes(origins[0].inbuf).split(b'\r\n', 1)[0]
            if line != b'GET ' + exp['path'] + b' HTTP/1.1':
                out.append(('origin-form-differs', feat, {'target': target, 'line': line}, b'GET ' + exp['path'] + b' HTTP/1.1'))
        return out
    finally:
        w.teardown()


def evaluate(c: Dict[str, Any]) -> Tuple[List[Any], Dict[str, Any]]:
    target = render_target(c)
    feat = {'form': c['form'], 'host': c['hkind'], 'port': 'absent' if c.get('port') is None else ('zero' if c['port'] == 0 else 'explicit'),
            'userinfo': bool(c.get('userinfo')), 'damage': c.get('damage'),
            'empty_path_query': c['form'] == 'absolute' and c['path'] == '' and c.get('query') is not None, 'prior': bool(c.get('prior'))}
    if c['hkind'] == 'name' and any(ord(ch) > 127 for ch in c['host']):
        feat['host'] = 'utf8-name'
    info = {'target': target}
    out = check_parser(c, target, feat)
    out += check_system(c, target, feat)
    if c.get('via_pool') and c['hkind'] == 'name' and not c.get('damage') and c.get('port') != 0:      # port 0: refusing is fine (see check_system)
        out += check_via_pool(c, target, feat)
    return out, info


def replay(case: Dict[str, Any]) -> List[Dict[str, Any]]:
    vs, _ = evaluate(case)
    return [{'property': ID, 'clause': cl, 'features': ft, 'case': case, 'observed': ob, 'expected': ex} for (cl, ft, ob, ex) in vs]


# -- generation ------------------------------------------------------------------------------------

_PCH = "abcXYZ019-._~!$&'()*+,;=:@%20"


@st.composite
def cases(draw: Any, damaged: bool) -> Dict[str, Any]:
    hkind = draw(st.sampled_from(['name', 'name', 'v4', 'v6', 'v6']))
    host = draw(st.sampled_from({'name': NAMES, 'v4': V4, 'v6': V6}[hkind]))
    if hkind == 'name' and draw(st.integers(0, 3)) == 0:
        host = '.'.join(draw(st.lists(st.text(alphabet='abcdefgxyz0123456789', min_size=1, max_size=8), min_size=1, max_size=4)))
        if host.replace('.', '').isdigit():
            host = 'h' + host
    form = draw(st.sampled_from(['absolute', 'absolute', 'authority']))
    port = draw(st.one_of(st.none(), st.sampled_from([80, 443, 8080, 1, 65535, 0]), st.integers(1, 65535)))
    if form == 'authority' and port is None and draw(st.booleans()):
        port = 443
    segs = draw(st.lists(st.text(alphabet=_PCH, max_size=6), max_size=3))
    path = ''.join('/' + s_ for s_ in segs)
    while path.startswith('//'):
        path = path[1:]
    if form == 'absolute' and path == '' and draw(st.booleans()):
        path = '/'
    query = draw(st.one_of(st.none(), st.none(), st.text(alphabet=_PCH + '/?', max_size=10)))
    userinfo = draw(st.sampled_from([None, None, None, 'user:pass', 'user', 'u%40x:p%3Aq', ':']))
    c = {'form': form, 'hkind': hkind, 'host': host, 'port': port, 'path': path, 'query': query if form == 'absolute' else None,
         'userinfo': userinfo}
    if not damaged and hkind == 'name' and draw(st.integers(0, 2)) == 0:
        c['via_pool'] = True
    if not damaged and draw(st.integers(0, 2)) == 0:
        eff = port if port is not None else (443 if form == 'authority' else 80)
        c['prior'] = {'port': draw(st.sampled_from([p_ for p_ in (80, 443, 8080, 8443, 9000) if p_ != eff])),
                      'form': draw(st.sampled_from(['absolute', 'authority']))}
    if not damaged:
        c['host_header'] = draw(st.sampled_from(['other', 'other', 'same', 'same-other-port', 'same-no-port']))
    if damaged:
        c['damage'] = draw(st.sampled_from(['unbalanced-bracket', 'port-not-a-number', 'port-too-large', 'port-negative', 'empty-host',
                                            'two-at', 'stray-colon']))
    return c


def shards(tier: str) -> List[Dict[str, Any]]:
    q = tier == 'quick'
    out = [{'name': 'valid-%02d' % i, 'damaged': False, 'examples': 700 if q else 20000} for i in range(12)]
    out += [{'name': 'damaged-%02d' % i, 'damaged': True, 'examples': 500 if q else 10000} for i in range(4)]
    return out


def run_shard(spec: Dict[str, Any], seed: int, acc: Any) -> None:
    def chk(c: Dict[str, Any]) -> List[Any]:
        vs, info = evaluate(c)
        nt = c['hkind'] == 'v6' or (c.get('port') not in (None, 80, 443)) or bool(c.get('userinfo')) or \
            (c['hkind'] == 'name' and (any(ord(ch) > 127 for ch in c['host']) or c['host'].startswith('xn--')))
        labs = ['form:' + c['form'], 'host:' + c['hkind'], 'port:' + ('absent' if c.get('port') is None else 'zero' if c['port'] == 0 else 'explicit')]
        if c.get('userinfo'):
            labs.append('userinfo')
        if c.get('prior'):
            labs.append('after-connection-to-same-host-other-port')
        if c.get('via_pool') and c['hkind'] == 'name':
            labs.append('also-through-an-upstream-proxy')
        if c.get('host_header') and c['host_header'] != 'other':
            labs.append('host-field:' + c['host_header'])
        if c.get('damage'):
            labs.append('damage:' + c['damage'])
        acc.case(c, nt, labels=labs, key=info['target'])
        return vs
    hyp.drive(cases(spec['damaged']), chk, acc, max_examples=spec['examples'], seed=seed, max_rounds=10)
