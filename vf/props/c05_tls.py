"""C05, live tier: adversaries against a TLS *listener* (--key-file/--cert-file).

Harness K is single-threaded and a TLS listener performs its handshake as a blocking call while the work is being set
up, so canaries cannot live inside it.  Here a real LocalFdExecutor runs in a thread (harness L, as in C11); connections
are handed to it as socket pairs, exactly as an acceptor would.
A case is a short sequence of connections: canaries (a verifying TLS client: handshake against the listener's certificate,
one request, the web server's 404 as the answer) and adversaries:
  plaintext (an HTTP request in the clear), close (connect and close), partial (a truncated ClientHello, then close),
  garbage (random bytes), silent (connects, sends nothing for H seconds, then closes).
Oracle: the worker thread is alive after the sequence, and every canary is answered.  For the silent adversary the judgement
is relative, never absolute time: a canary started while the adversary is silent must be answered BEFORE the adversary
goes away; "only after the adversary closed" in three consecutive repetitions (with a canary-alone latency below H/8) is a
stall of the worker by one client.
"""
import os
import ssl
import time
import socket
import threading
from typing import Any, Dict, List, Tuple

from vf.props import c11

HOLD = 4.0
_L: Dict[str, Any] = {}


def executor() -> Dict[str, Any]:
    fx = c11.fixture()
    ex = _L.get('ex')
    if ex is not None and _L.get('pid') == os.getpid() and ex['thread'].is_alive():
        return ex
    import logging
    from proxy.common.flag import FlagParser
    from proxy.common.backports import NonBlockingQueue
    from proxy.core.work.fd.local import LocalFdExecutor
    P = fx['P']
    flags = FlagParser.initialize(['--threadless', '--enable-web-server', '--key-file', P('good-key.pem'), '--cert-file', P('good-cert.pem')])
    logging.disable(logging.CRITICAL)
    q = NonBlockingQueue()
    lex = LocalFdExecutor(iid='c05tls', work_queue=q, flags=flags, event_queue=None)
    th = threading.Thread(target=lex.run, daemon=True)
    th.start()
    ex = {'q': q, 'thread': th, 'ex': lex}
    _L.update(ex=ex, pid=os.getpid())
    return ex


def stop() -> None:
    ex = _L.pop('ex', None)
    if ex is not None:
        try:
            ex['q'].put(False)
        except Exception:
            pass


def connect(ex: Dict[str, Any], n: int) -> socket.socket:
    a, b = socket.socketpair()
    ex['q'].put((a, ('127.0.0.1', 52000 + n)))
    return b


def canary(ex: Dict[str, Any], n: int, deadline_s: float = 20.0) -> Dict[str, Any]:
    """One verifying TLS client.  Returns {'answered': bool, 't_done': float|None, 'why': str}."""
    fx = c11.fixture()
    b = connect(ex, n)
    t0 = time.time()
    res: Dict[str, Any] = {'answered': False, 't_start': t0, 't_done': None, 'why': ''}
    try:
        ctx = ssl.create_default_context(cafile=fx['P']('oca-cert.pem'))
        b.settimeout(deadline_s)
        t = ctx.wrap_socket(b, server_hostname='localhost')
        t.sendall(b'GET /canary-%d HTTP/1.1\r\nHost: localhost\r\n\r\n' % n)
        buf, st_ = c11.recv_until(t, lambda x: c11._complete(x), time.time() + deadline_s)
        res['t_done'] = time.time()
        res['answered'] = st_ == 'ok' and buf.startswith(b'HTTP/1.1 404')
        res['why'] = st_ if st_ != 'ok' else buf[:20].decode('latin-1')
        try:
            t.close()
        except OSError:
            pass
    except (ssl.SSLError, OSError) as e:
        res['t_done'] = time.time()
        res['why'] = '%s' % type(e).__name__
    finally:
        try:
            b.close()
        except OSError:
            pass
    return res


def adversary(ex: Dict[str, Any], kind: str, n: int, payload: bytes = b'') -> Dict[str, Any]:
    """Non-silent adversaries: performed and finished before returning."""
    b = connect(ex, n)
    try:
        b.settimeout(5.0)
        if kind == 'plaintext':
            b.sendall(b'GET / HTTP/1.1\r\nHost: localhost\r\n\r\n')
        elif kind == 'partial':
            b.sendall(b'\x16\x03\x01\x02\x00\x01\x00\x01\xfc\x03\x03' + payload[:24])
        elif kind == 'garbage':
            b.sendall(payload or b'\x00\xff' * 40)
        elif kind == 'close':
            pass
        if kind != 'close':
            try:
                b.recv(4096)      # whatever the listener answers (alert, nothing, EOF)
            except (socket.timeout, OSError):
                pass
    finally:
        try:
            b.close()
        except OSError:
            pass
    return {'kind': kind}


def silent_round(ex: Dict[str, Any], n: int) -> Dict[str, Any]:
    """A silent client is connected first; a canary follows while it is silent.  Who finishes first?"""
    b = connect(ex, n)
    closed_at: List[float] = []

    def closer() -> None:
        time.sleep(HOLD)
        closed_at.append(time.time())
        try:
            b.close()
        except OSError:
            pass
    th = threading.Thread(target=closer, daemon=True)
    time.sleep(0.2)
    th.start()
    c = canary(ex, n + 1, deadline_s=HOLD * 4)
    th.join()
    return {'canary': c, 'adversary_closed_at': closed_at[0] if closed_at else None,
            'canary_done_before_adversary_left': bool(c['answered'] and closed_at and c['t_done'] < closed_at[0])}


def evaluate(c: Dict[str, Any]) -> Tuple[List[Any], Dict[str, Any]]:
    """c = {'tls_listener': True, 'steps': [['canary'] | ['adv', kind, payload] | ['silent']]}"""
    ex = executor()
    out: List[Any] = []
    info: Dict[str, Any] = {'canaries': 0, 'kinds': sorted(set(s[1] if s[0] == 'adv' else s[0] for s in c['steps']))}
    feat = {'tls_listener': True}
    n = 0
    calib = canary(ex, 9000)
    if not calib['answered']:
        if not ex['thread'].is_alive():
            stop()
            return [('worker-died', dict(feat, after='nothing'), calib['why'], 'executor keeps running')], info
        info['inconclusive'] = True
        return out, info
    alone = calib['t_done'] - calib['t_start']
    last = 'nothing'
    for step in c['steps']:
        n += 10
        if step[0] == 'canary':
            r = canary(ex, n)
            info['canaries'] += 1
            if not r['answered']:
                if not ex['thread'].is_alive():
                    stop()
                    return out + [('worker-died', dict(feat, after=last), r['why'], 'executor keeps running')], info
                out.append(('subsequent-connection-never-served', dict(feat, after=last), r['why'], 'HTTP/1.1 404 ...'))
                return out, info
        elif step[0] == 'adv':
            adversary(ex, step[1], n, step[2] if len(step) > 2 else b'')
            last = step[1]
        elif step[0] == 'silent':
            last = 'silent'
            if alone > HOLD / 8:
                info['inconclusive'] = True      # machine too slow for a relative judgement
                continue
            stalled = 0
            for rep in range(3):
                r = silent_round(ex, n + rep * 2)
                info['canaries'] += 1
                if r['canary_done_before_adversary_left']:
                    break
                stalled += 1
            if stalled == 3:
                out.append(('worker-stalled-by-silent-tls-client', feat, {'canary_alone_s': round(alone, 3), 'hold_s': HOLD, 'last': {
                    'answered': r['canary']['answered'], 'after_adversary_left': True}}, 'canary answered while the adversary is still silent'))
    if not ex['thread'].is_alive():
        stop()
        out.append(('worker-died', dict(feat, after=last), None, 'executor keeps running'))
    return out, info
