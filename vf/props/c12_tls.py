"""C12, live tier: reverse-proxy routes whose upstream URL is https://.

Harness K cannot run a TLS handshake (single thread), so the main C12 check only observes where an https route connects.
Here a real LocalFdExecutor (thread) with the web server + reverse proxy serves kernel socketpair clients, and the
upstreams are real TLS origins on loopback (C11's fixture: an origin CA that is the proxy's --ca-file, a certificate
naming good.test / a.good.test / localhost / 127.0.0.1 / ::1).  Routes name the origin by registered name, by IPv4
literal, by IPv6 literal, with and without a path, with an explicit port and - when this process may bind it - with the
scheme's default port 443.  A conversation is 1..3 keep-alive requests (same or different routes) written in drawn
segments, against response sizes up to 300 KB (many TLS records, partial non-blocking reads).
Oracle (per request, in order): exactly what C12 states - the origin that the route's URL names decrypts one request with
the client's method, headers (Host rewritten to the URL's authority iff --rewrite-host-header) and body and the URL's
path as target; the client reads exactly the bytes that origin sent.  A deadline hit is inconclusive.
"""
import re
import ssl
import time
import socket
import threading
from typing import Any, Dict, List, Optional, Tuple

from hypothesis import strategies as st

from vf.gens import http as G
from vf.refs import http_ref as H
from vf.props import c11

DEADLINE = 15.0
_EX: Dict[Any, Any] = {}
_PORTS: Dict[str, int] = {}
TABLE: List[Tuple[str, List[bytes]]] = []


def _origin443() -> Optional[Any]:
    """a TLS origin on 127.0.0.1:443 when this process is allowed to bind it (default https port, observed live)"""
    fx = c11.fixture()
    if 'o443' in fx:
        return fx['o443']
    o = c11.Origin('good', fx, socket.AF_INET)
    try:
        ls = socket.socket(socket.AF_INET, socket.SOCK_STREAM)
        ls.setsockopt(socket.SOL_SOCKET, socket.SO_REUSEADDR, 1)
        ls.bind(('127.0.0.1', 443))
        ls.listen(16)
    except OSError:
        o.ls.close()
        fx['o443'] = None
        return None
    o.ls.close()
    o.ls = ls
    o.port = 443
    o.start()
    fx['origins']['o443'] = fx['o443'] = o
    return o


def table() -> List[Tuple[str, List[bytes]]]:
    o4 = c11.origin_for('good', False)
    o6 = c11.origin_for('good', True)
    p4, p6 = o4.port, o6.port
    t = [
        (r'/tls/name$', [b'https://good.test:%d/sec/deep?fixed=1' % p4]),
        (r'/tls/nopath$', [b'https://a.good.test:%d' % p4]),
        (r'/tls/ip/(.*)$', [b'https://127.0.0.1:%d/ip' % p4]),
        (r'/tls/v6$', [b'https://[::1]:%d/v6' % p6]),
        (r'/tls/either$', [b'https://localhost:%d/one' % p4, b'https://good.test:%d/two' % p4]),
    ]
    if _origin443() is not None:
        t.append((r'/tls/default-port$', [b'https://good.test/default']))
    return t


PATHS = ['/tls/name', '/tls/nopath', '/tls/ip/x', '/tls/ip/', '/tls/v6', '/tls/either', '/tls/default-port', '/tls/none', '/tls/name/extra']


def executor_for(rewrite: bool) -> Any:
    fx = c11.fixture()
    ex = _EX.get(rewrite)
    if ex is not None and ex['thread'].is_alive() and ex['pid_dir'] == fx['dir']:
        return ex
    from proxy.common.flag import FlagParser
    from proxy.common.backports import NonBlockingQueue
    from proxy.core.work.fd.local import LocalFdExecutor
    from proxy.http.server import ReverseProxyBasePlugin
    import logging

    class Routes(ReverseProxyBasePlugin):
        def routes(self) -> Any:
            return list(TABLE)
    TABLE[:] = table()
    argv = ['--threadless', '--enable-reverse-proxy', '--ca-file', fx['P']('oca-cert.pem')] + (['--rewrite-host-header'] if rewrite else [])
    flags = FlagParser.initialize(argv, plugins=[Routes])
    logging.disable(logging.CRITICAL)
    q = NonBlockingQueue()
    lex = LocalFdExecutor(iid='c12tls', work_queue=q, flags=flags, event_queue=None)
    th = threading.Thread(target=lex.run, daemon=True)
    th.start()
    ex = {'q': q, 'thread': th, 'ex': lex, 'pid_dir': fx['dir']}
    _EX[rewrite] = ex
    return ex


def stop() -> None:
    for ex in _EX.values():
        try:
            ex['q'].put(False)
        except Exception:
            pass
    _EX.clear()
    c11.cleanup()


def _origins() -> List[Any]:
    fx = c11.fixture()
    return list(fx['origins'].values())


def converse(c: Dict[str, Any]) -> Dict[str, Any]:
    ex = executor_for(c['rewrite'])
    for o in _origins():
        o.response_size = c['resp_size']
    before = {id(o): len(o.conns) for o in _origins()}
    a, b = socket.socketpair()
    ex['q'].put((a, ('127.0.0.1', 52000)))
    out: Dict[str, Any] = {'replies': [], 'status': []}
    deadline = time.time() + DEADLINE
    try:
        for req in c['reqs']:
            raw = G.render(req)
            pos = 0
            for n in req.get('_writes', []) + [len(raw)]:
                if pos >= len(raw):
                    break
                b.sendall(raw[pos:pos + n])
                pos += n
                if req.get('_pause'):
                    time.sleep(0.005)
            resp, st_ = c11.recv_until(b, c11._complete, deadline)
            out['replies'].append(resp)
            out['status'].append(st_)
            if st_ != 'ok':
                break
    except OSError as e:
        out['error'] = '%s: %s' % (type(e).__name__, e)
    finally:
        try:
            b.close()
        except OSError:
            pass
        time.sleep(0.02)
        out['origin_conns'] = []
        for o in _origins():
            for x in o.conns[before.get(id(o), 0):]:
                out['origin_conns'].append(dict(x, port=o.port, v6=o.ls.family == socket.AF_INET6))
        out['executor_alive'] = ex['thread'].is_alive()
    return out


def url_parts(u: bytes) -> Tuple[str, int, bytes, bytes]:
    from urllib.parse import urlsplit
    s = urlsplit(u.decode())
    port = s.port if s.port is not None else (443 if s.scheme == 'https' else 80)
    path = (s.path or '') + (('?' + s.query) if s.query else '')
    return s.hostname or '', port, (path or '/').encode(), s.netloc.encode()


def evaluate(c: Dict[str, Any]) -> Tuple[List[Any], Dict[str, Any]]:
    TABLE[:] = table()
    r = converse(c)
    feat = {'rewrite': c['rewrite'], 'requests': len(c['reqs']), 'tls_upstream': True}
    info: Dict[str, Any] = {'nt': False, 'routed': 0}
    out: List[Any] = []
    if not r['executor_alive']:
        _EX.pop(c['rewrite'], None)
        return [('worker-died', feat, r.get('error'), None)], info
    if 'timeout' in r['status']:
        info['inconclusive'] = True
        return out, info
    # what the origins decrypted, in arrival order per connection; one upstream connection per routed request
    decrypted = [x for x in r['origin_conns'] if x.get('app_bytes')]
    for i, req in enumerate(c['reqs']):
        if i >= len(r['replies']):
            break
        path = req['target'].decode()
        match = [urls for (rx, urls) in TABLE if re.compile(rx).match(path)]
        reply = r['replies'][i]
        f = dict(feat, position=i + 1)
        if not match:
            p = H.parse_responses(reply, [req['method']], eof=True)
            if not (p.ok and len(p.messages) == 1 and p.messages[0]['code'] == 404):
                out.append(('no-404-for-unrouted-path', f, reply[:80], 404))
            break       # the 404 closes the connection
        info['routed'] += 1
        # the origins record independently: take the oldest unconsumed connection at an endpoint some matching URL names
        mine = [x for x in decrypted if not x.get('_used') and any(url_parts(u)[1] == x['port'] and (url_parts(u)[0] == '::1') == x['v6'] for u in match[0])]
        if not mine:
            stray = [x for x in decrypted if not x.get('_used')]
            if stray:
                out.append(('connected-to-endpoint-of-no-matching-route', f, {'port': stray[0]['port'], 'v6': stray[0]['v6']}, match[0]))
                break
            out.append(('routed-request-reached-no-tls-origin', f, {'reply': reply[:80], 'status': r['status'][i],
                                                                   'origin_errors': [x.get('error') for x in r['origin_conns']][:3]}, match[0]))
            break
        oc = mine[0]
        oc['_used'] = True
        cands = [u for u in match[0] if url_parts(u)[1] == oc['port'] and (url_parts(u)[0] == '::1') == oc['v6']]
        pr = H.parse_requests(oc['app_bytes'])
        if not pr.ok or len(pr.messages) != 1 or pr.partial:
            out.append(('origin-received-malformed-or-incomplete-request', f, {'h11': repr(pr), 'bytes': oc['app_bytes'][:160]}, None))
            break
        m = pr.messages[0]
        _, raw_hs, _ = H.split_head(oc['app_bytes'])
        client_host = [h[1] for h in G.all_headers(req) if h[0].lower() == b'host']
        got_host = [v for k_, v in raw_hs if k_.lower() == b'host']
        if not any(m['target'] == url_parts(u)[2] and got_host == ([url_parts(u)[3]] if c['rewrite'] else client_host) for u in cands):
            out.append(('upstream-request-path-or-host-differs', f, {'target': m['target'], 'host': got_host},
                        [(url_parts(u)[2], url_parts(u)[3] if c['rewrite'] else client_host) for u in cands]))
        if m['method'] != req['method'] or m['body'] != req['body']:
            out.append(('method-or-body-changed', f, (m['method'], m['body'][:40]), (req['method'], req['body'][:40])))
        framing = {b'content-length', b'transfer-encoding', b'host'}
        want_h = sorted((h[0], h[1]) for h in G.all_headers(req) if h[0].lower() not in framing)
        got_h = sorted((k_, v) for k_, v in raw_hs if k_.lower() not in framing)
        if want_h != got_h:
            out.append(('headers-changed', f, {'extra': [x for x in got_h if x not in want_h][:4], 'missing': [x for x in want_h if x not in got_h][:4]}, None))
        if reply != oc.get('sent', b''):
            out.append(('upstream-response-not-relayed-unmodified', f, {'len': len(reply), 'head': reply[:60], 'status': r['status'][i]},
                        {'len': len(oc.get('sent', b'')), 'head': oc.get('sent', b'')[:60]}))
        info['nt'] = True
    stray = [x for x in decrypted if not x.get('_used')]
    if stray and not out and len(r['replies']) == len(c['reqs']):
        out.append(('more-upstream-requests-than-routed-requests', feat, [(x['port'], x['app_bytes'][:60]) for x in stray][:3], None))
    return out, info


@st.composite
def cases(draw: Any) -> Dict[str, Any]:
    reqs = []
    for _ in range(draw(st.integers(1, 3))):
        req = draw(G.request_spec(form='origin', host=b'front.test', framings=('none', 'cl'), max_body=400, max_headers=5,
                                  versions=(b'HTTP/1.1',), methods=st.sampled_from([b'GET', b'POST', b'PUT', b'DELETE', b'PATCH'])))
        req['target'] = draw(st.sampled_from(PATHS)).encode()
        raw_len = len(G.render(req))
        req['_writes'] = draw(st.lists(st.integers(1, max(2, raw_len)), max_size=3))
        req['_pause'] = draw(st.booleans())
        reqs.append(req)
    return {'tls_upstream': True, 'reqs': reqs, 'rewrite': draw(st.booleans()), 'resp_size': draw(st.sampled_from([0, 10, 3000, 70000, 300000]))}
