"""C06 - any input yields service, a well-formed error response, or a clean close.

(a) Byte strings sent to a fresh connection of a proxy with the web server enabled (upstream connect answered by a
    stub origin, or refused): random bytes, and grammar-generated requests under mutation (truncate, duplicate,
    splice, bit-flip, oversize / non-numeric / negative Content-Length, unknown scheme / method / version, non-UTF-8
    bytes, bare LF, NUL), each under a generated segmentation.
    Oracle: what the client reads must be a sequence of COMPLETE, well-formed responses for h11 (nothing partial, no
    trailing garbage); a response the proxy made itself has Content-Length == body length and gzip bodies decompress;
    after an error response of the proxy's own (4xx/5xx) EOF follows; if the input starts with a request that the
    reference parser finds complete and valid, the outcome at quiescence is not "nothing sent, still open"; the
    worker must survive.  Don't-care: inputs whose completeness is ambiguous (partial body).
(b) All arguments of the response builders (build_http_response, okResponse around min_compression_length,
    HttpRequestRejected.response, redirect helpers, canned packets, websocket handshake, static-file replies):
    h11 accepts each as exactly one complete response with a body consistent with its framing.
"""
import os
import gzip
import re
from typing import Any, Dict, List, Optional, Tuple

from hypothesis import strategies as st

from vf.core import hyp
from vf.gens import http as G
from vf.harness import k as K
from vf.harness.peers import ReactiveOrigin
from vf.refs import http_ref as H
from vf.refs import chunk_ref

ID = 'C06'
LEVEL = 'exploration'
RULE = ('(a) Hypothesis draws random byte strings, a grammar-generated request plus a list of mutations, or a sequence of 2..4 complete requests (routed / unrouted / upgrade / odd paths) for one connection, a segmentation, '
        'and whether the upstream connect is refused; (b) builder arguments (status codes admitting a body, reasons, token '
        'header names, CRLF-free values, bodies, conn_close/no_cl, compression thresholds). '
        'Non-trivial: (a) the input reached plugin dispatch or produced a response; (b) body non-empty or >= 2 headers. '
        'Distinct by case hash.')
ASSUMPTIONS = ['h11 0.16 as the independent HTTP parser', 'AF_UNIX pairs stand in for TCP']

_FLAGS: Dict[str, Any] = {}
STUB = b'HTTP/1.1 200 OK\r\nContent-Length: 4\r\nX-Origin-Stub: 1\r\n\r\nstub'


def ws_route() -> Any:
    if 'ws' not in _FLAGS:
        from proxy.http.server import HttpWebServerBasePlugin, httpProtocolTypes

        class VfWs(HttpWebServerBasePlugin):
            """A websocket route: upgrade proposals for /vfws are taken by the web server itself."""

            def routes(self) -> List[Tuple[int, str]]:
                return [(httpProtocolTypes.WEBSOCKET, r'/vfws$')]

            def handle_request(self, request: Any) -> None:
                raise AssertionError('websocket route asked to handle a plain request')

            def on_websocket_message(self, frame: Any) -> None:
                pass
        _FLAGS['ws'] = VfWs
    return _FLAGS['ws']


def flags(pp: bool = False) -> Any:
    if _FLAGS.get('pid') != os.getpid():
        from vf.props import c07
        _FLAGS['pid'] = os.getpid()
        base = ['--threadless', '--enable-web-server', '--enable-static-server', '--static-server-dir', c07.static_dir()]
        _FLAGS['f'] = K.make_flags(base, plugins=[c07.route_plugin(), ws_route()])
        # the listener expects a HAProxy PROXY protocol line ahead of the first request
        _FLAGS['pp'] = K.make_flags(base + ['--enable-proxy-protocol'], plugins=[c07.route_plugin(), ws_route()])
    return _FLAGS['pp' if pp else 'f']


PP_LINES = [b'PROXY TCP4 192.0.2.1 192.0.2.2 56324 443\r\n', b'PROXY TCP6 2001:db8::1 2001:db8::2 1 65535\r\n', b'PROXY UNKNOWN\r\n',
            b'PROXY UNKNOWN ffff:f...f:ffff ffff:f...f:ffff 65535 65535\r\n', b'PROXY TCP4 192.0.2.1 192.0.2.2 notaport 443\r\n',
            b'PROXY TCP4 192.0.2.1\r\n', b'PROXY TCP9 a b 1 2\r\n', b'PROXY ' + b'x' * 80 + b'\r\n', b'PROXY\r\n', b'PROXY TCP4 1 2 3 4',
            b'\r\n\r\n\x00\r\nQUIT\n\x21\x11\x00\x0c\x7f\x00\x00\x01\x7f\x00\x00\x01\x00\x50\x01\xbb', b'proxy tcp4 1.1.1.1 2.2.2.2 1 2\r\n', b'']


# -- (a) -------------------------------------------------------------------------------------------

def mutate(raw: bytes, muts: List[List[Any]]) -> bytes:
    b = bytearray(raw)
    for m in muts:
        kind = m[0]
        if not b and kind not in ('append',):
            continue
        if kind == 'truncate':
            del b[m[1] % (len(b) + 1):]
        elif kind == 'dup':
            i = m[1] % len(b)
            j = i + m[2] % 40
            b[j:j] = b[i:j]
        elif kind == 'flip':
            i = m[1] % len(b)
            b[i] ^= 1 << (m[2] % 8)
        elif kind == 'set':
            b[m[1] % len(b)] = m[2] % 256
        elif kind == 'replace':
            b = bytearray(bytes(b).replace(m[1], m[2], 1))
        elif kind == 'append':
            b += m[1]
        elif kind == 'barelf':
            b = bytearray(bytes(b).replace(b'\r\n', b'\n'))
        elif kind == 'insert':
            i = m[1] % (len(b) + 1)
            b[i:i] = m[2]
        elif kind == 'addheader':
            # a further header line after the k-th line of the head (conflicting or duplicated framing fields, mostly)
            head_end = bytes(b).find(b'\r\n\r\n')
            lines = [i for i in range(len(b)) if b[i:i + 2] == b'\r\n' and (head_end < 0 or i <= head_end)]
            if lines:
                at = lines[m[1] % len(lines)] + 2
                b[at:at] = m[2] + b'\r\n'
    return bytes(b)


def run_input(data: bytes, cuts: List[int], refuse: bool, schedule: List[int], pp: bool = False) -> Dict[str, Any]:
    w = K.World(flags(pp), max_iters=6000, settle=6)
    pieces = G.cut(data, cuts)
    client = K.Peer('client', out=data, script=[['send', len(p)] for p in pieces])
    w.add_client(client)
    origins: List[ReactiveOrigin] = []

    def fac(world: K.World, addr: Tuple[str, int], idx: int) -> Tuple[K.Peer, Optional[Dict[str, Any]]]:
        o = ReactiveOrigin('origin%d' % idx, responder=lambda o_, raw, n: STUB)
        origins.append(o)
        return o, None
    w.origin_factory = fac
    if refuse:
        w.connect_plan = {i: 'refused' for i in range(4)}
    w.order = ['client', 'origin0']
    w.schedule = schedule
    w.run_local()
    res = {'world': w, 'got': bytes(client.inbuf), 'eof': client.eof_iter is not None, 'died': w.worker_died,
           'exc': (w.exceptions or [('', 'loop-stopped')])[0][1].split(':')[0], 'connects': len(w.connect_log),
           'origin_bytes': sum(len(o.inbuf) for o in origins), 'budget': w.budget_exhausted,
           'dispatched': bool(w.executor and any(getattr(wk, 'plugin', None) is not None for wk in w.executor.works.values())) or
           bool(w.connect_log)}
    w.teardown()
    return res


def check_input(c: Dict[str, Any]) -> Tuple[List[Any], Dict[str, Any]]:
    if c['what'] == 'random':
        data = c['data']
    elif c['what'] == 'sequence':
        # several complete requests on one connection (keep-alive / pipelined): routed, unrouted, static, upgrade proposals
        data = b''.join(G.render(q_) for q_ in c['reqs'])
    else:
        data = mutate(G.render(c['req']), c['muts'])
    pp = c.get('pp')
    if pp is not None:
        # --enable-proxy-protocol: the drawn PROXY line (valid v1, malformed, v2 signature, none) precedes the input
        data = PP_LINES[pp % len(PP_LINES)] + data
    cuts = [x % max(1, len(data)) for x in c.get('cuts', [])]
    r = run_input(data, cuts, c.get('refuse', False), c.get('schedule', []), pp is not None)
    first_line = data.split(b'\n', 1)[0]
    try:
        ref = H.parse_requests(data)
        ref_complete = ref.ok and len(ref.messages) >= 1
    except Exception:
        ref_complete = False
    # h11 is lenient about bare LF line endings; a request delimited by bare LFs is not "definitely complete"
    # for a server that insists on CRLF (waiting for the rest is then a legitimate outcome)
    head = data.split(b'\r\n\r\n', 1)[0] if b'\r\n\r\n' in data else None
    if head is None or b'\n' in head.replace(b'\r\n', b''):
        ref_complete = False
    if ref_complete and re.search(rb'(?im)^transfer-encoding[ \t]*:[^\r\n]*chunked', head or b''):
        # the same leniency exists inside a chunked body (h11 takes a bare LF as the end of the trailer section): only a body
        # that the strict RFC 7230 reference decoder completes is "definitely complete"
        try:
            done, _, _ = chunk_ref.decode(data.split(b'\r\n\r\n', 1)[1])
        except ValueError:
            done = False
        if not done:
            ref_complete = False
    nonutf8 = False
    try:
        data.split(b'\r\n\r\n', 1)[0].decode('utf-8')
    except UnicodeDecodeError:
        nonutf8 = True
    if pp is not None:
        ref_complete = False      # what follows a PROXY line is judged for well-formed output and closing only
    feat = {'what': c['what'], 'nonutf8_head': nonutf8, 'ref_complete': ref_complete}
    if pp is not None:
        feat['proxy_protocol'] = True
    info = {'dispatched': r['dispatched'] or bool(r['got']), 'got': len(r['got'])}
    out: List[Any] = []
    if r['budget']:
        info['inconclusive'] = True
        return out, info
    if r['died']:
        return [('worker-died', dict(feat, exc=r['exc']), {'input': data[:200]}, 'served, rejected or closed')], info
    got = r['got']
    if first_line.startswith(b'CONNECT ') and got.startswith(b'HTTP/1.1 200'):
        info['dontcare'] = 'tunnel-established'
        return out, info
    if got.startswith(b'HTTP/1.1 101 '):
        # the web server took a websocket upgrade: the reply's form is examined by the builder check and by C16; what follows is
        # not HTTP any more
        info['dontcare'] = 'protocol-switched'
        return out, info
    n_expect = max(1, len(ref.messages) if ref_complete else 1)
    # (relayed answers of the origin stub are not the proxy's own output; the stub may answer several times when the proxy forwards
    # bytes it frames differently - the number of responses is not judged here, only that every one is well-formed)
    p = H.parse_responses(got, [b'GET'] * (n_expect + 60), eof=r['eof'])
    if not p.ok:
        # HEAD-like ambiguity cannot arise: all our methods are parsed as GET by the reference client
        out.append(('malformed-output', feat, {'h11': p.error, 'bytes': got[:200]}, 'complete well-formed responses'))
        return out, info
    if p.partial is not None and r['eof']:
        out.append(('partial-response-then-close', feat, {'bytes': got[-120:]}, None))
    if p.leftover:
        out.append(('garbage-after-responses', feat, p.leftover[:80], None))
    own_error = False
    for m in p.messages:
        hd = {k_.lower(): v for k_, v in m['headers']}
        own = b'x-origin-stub' not in hd
        if own_error:
            # "sends a syntactically valid HTTP error response and closes": the error response is the last thing on the connection
            out.append(('output-after-own-error-response', feat, {'codes': [x['code'] for x in p.messages], 'bytes': got[:200]},
                        'nothing after the error response'))
            break
        if own and hd.get(b'content-encoding') == b'gzip':
            try:
                gzip.decompress(m['body'])
            except Exception:
                out.append(('own-gzip-body-does-not-decompress', feat, m['code'], None))
        own_error = own and m['code'] >= 400
    if own_error and not r['eof']:
        out.append(('connection-kept-open-after-own-error-response', feat, {'codes': [m['code'] for m in p.messages]}, 'EOF'))
    if ref_complete and not got and not r['eof']:
        out.append(('complete-request-neither-served-nor-rejected', feat, {'input': data[:200], 'connects': r['connects'],
                                                                           'origin_bytes': r['origin_bytes']}, None))
    return out, info


# -- (b) -------------------------------------------------------------------------------------------

def check_builder(c: Dict[str, Any]) -> Tuple[List[Any], Dict[str, Any]]:
    from proxy.common.utils import build_http_response, build_websocket_handshake_response
    from proxy.http import responses as R
    from proxy.http.exception import HttpRequestRejected
    from proxy.http.server import HttpWebServerBasePlugin
    from proxy.http.websocket import WebsocketFrame
    b = c['builder']
    feat = {'builder': b}
    body = c.get('body')
    headers = {h[0]: h[1] for h in c.get('headers', [])} or None
    want_body: Optional[bytes] = body or b''
    try:
        if b == 'build_http_response':
            raw = build_http_response(c['code'], reason=c['reason'], headers=headers, body=body, conn_close=c['conn_close'], no_cl=c['no_cl'])
        elif b == 'okResponse':
            raw = bytes(R.okResponse(content=body, headers=headers, compress=c['compress'], min_compression_length=c['mcl'],
                                     conn_close=c['conn_close']))
        elif b == 'rejected':
            mv = HttpRequestRejected(status_code=c['code'], reason=c['reason'], headers=headers, body=body).response(None)     # type: ignore[arg-type]
            raw = bytes(mv) if mv is not None else b''
        elif b == 'redirect':
            raw = bytes((R.permanentRedirectResponse if c['perm'] else R.seeOthersResponse)(c['location']))
            want_body = b''
        elif b == 'canned':
            raw = bytes(getattr(R, c['name']))
            want_body = None
        elif b == 'ws_handshake':
            raw = build_websocket_handshake_response(WebsocketFrame.key_to_accept(c['key']))
            want_body = None
        elif b == 'static':
            from vf.props import c07
            path, data = c07.static_file(c['size'], c['salt'], c.get('ext', 'bin'))
            raw = bytes(HttpWebServerBasePlugin.serve_static_file(c07.static_dir() + path, c['mcl']))
            want_body = data
        else:
            raise ValueError(b)
    except Exception as e:
        return [('builder-raises', dict(feat, exc=type(e).__name__), repr(e), None)], {'nt': False}
    info = {'nt': bool(body) or len(c.get('headers', [])) >= 2}
    method = b'CONNECT' if (b == 'canned' and c['name'] == 'PROXY_TUNNEL_ESTABLISHED_RESPONSE_PKT') else b'GET'
    if b == 'ws_handshake':
        # 101 Switching Protocols: judged by an h11 client that proposed the upgrade
        import h11
        hc = h11.Connection(h11.CLIENT)
        hc.send(h11.Request(method='GET', target='/', headers=[('Host', 'h'), ('Connection', 'upgrade'), ('Upgrade', 'websocket')]))
        hc.send(h11.EndOfMessage())
        hc.receive_data(raw)
        try:
            ev = hc.next_event()
            ok = isinstance(ev, h11.InformationalResponse) and ev.status_code == 101 and hc.next_event() is h11.PAUSED \
                and bytes(hc.trailing_data[0]) == b''
        except h11.RemoteProtocolError:
            ok = False
        return ([] if ok else [('handshake-response-malformed', feat, raw[:200], None)]), info
    p = H.parse_responses(raw, [method], eof=True)
    if not p.ok or len(p.messages) != 1 or p.partial or (p.leftover and method != b'CONNECT'):
        return [('h11-rejects-own-response', feat, {'h11': repr(p), 'bytes': raw[:200]}, 'one complete response')], info
    m = p.messages[0]
    out: List[Any] = []
    hd = {k_.lower(): v for k_, v in m['headers']}
    got_body = m['body']
    if b'content-length' in hd and int(hd[b'content-length']) != len(got_body):
        out.append(('content-length-inconsistent', feat, (hd[b'content-length'], len(got_body)), None))
    if hd.get(b'content-encoding') == b'gzip':
        try:
            got_body = gzip.decompress(got_body)
        except Exception:
            return [('own-gzip-body-does-not-decompress', feat, raw[:120], None)], info
    if want_body is not None and got_body != want_body:
        out.append(('body-differs', feat, got_body[:80], want_body[:80]))
    if 'code' in c and m['code'] != c['code']:
        out.append(('status-differs', feat, m['code'], c['code']))
    return out, info


def evaluate(c: Dict[str, Any]) -> Tuple[List[Any], Dict[str, Any]]:
    if 'builder' in c:
        return check_builder(c)
    return check_input(c)


def replay(case: Dict[str, Any]) -> List[Dict[str, Any]]:
    vs, _ = evaluate(case)
    return [{'property': ID, 'clause': cl, 'features': ft, 'case': case, 'observed': ob, 'expected': ex} for (cl, ft, ob, ex) in vs]


# -- generation ----------------------------------------------------------------------------------

MUT = st.one_of(
    st.tuples(st.just('truncate'), st.integers(0, 4000)).map(list),
    st.tuples(st.just('dup'), st.integers(0, 4000), st.integers(1, 40)).map(list),
    st.tuples(st.just('flip'), st.integers(0, 4000), st.integers(0, 7)).map(list),
    st.tuples(st.just('set'), st.integers(0, 4000), st.sampled_from([0, 10, 13, 32, 58, 128, 255, 0xc3, 0xff])).map(list),
    st.tuples(st.just('replace'), st.sampled_from([b'Content-Length: ', b'content-length: ']),
              st.sampled_from([b'Content-Length: 9', b'Content-Length: abc', b'Content-Length: -', b'Content-Length: 99999999999999999999',
                               b'Content-Length: 1e3', b'Content-Length:\t'])).map(list),
    st.tuples(st.just('replace'), st.just(b'http://'), st.sampled_from([b'ftp://', b'https://', b'gopher://', b'://', b'http:/', b'HTTP://'])).map(list),
    st.tuples(st.just('replace'), st.just(b'example.test'),
              st.sampled_from([b'example.test:65536', b'example.test:-1', b'example.test:99999', b'example.test:0', b'example.test:',
                               b'example.test:abc', b'[::1]:70000', b'example.test:65535', b'example.test:080', b'[::1', b'a@b@example.test',
                               b'example.test:4294967376', b'example..test', b'[fe80::1%25eth0]:80'])).map(list),
    st.tuples(st.just('replace'), st.just(b'HTTP/1.1'), st.sampled_from([b'HTTP/9.9', b'HTTP/1', b'HTTP/2.0', b'http/1.1', b'HTTP/1.1 x', b''])).map(list),
    st.tuples(st.just('replace'), st.sampled_from([b'GET ', b'POST ', b'PUT ']), st.sampled_from([b'BREW ', b'get ', b' ', b'G\x00T ', b'\xff\xfe '])).map(list),
    st.tuples(st.just('replace'), st.just(b'/'), st.sampled_from([b'/\xff\xfe', b'/\xc3\x28', b'/%ff', b'/\x00', b'/ /', b'/\r'])).map(list),
    st.tuples(st.just('replace'), st.just(b': '), st.sampled_from([b': \xff', b' : ', b':', b': \x00', b'\x00: '])).map(list),
    st.tuples(st.just('append'), st.sampled_from([b'\r\n', b'GET / HTTP/1.1\r\n\r\n', b'\x00' * 8, b'garbage'])).map(list),
    st.tuples(st.just('addheader'), st.integers(0, 12),
              st.sampled_from([b'Content-Length: 0', b'Content-Length: 7', b'content-length: 5', b'Content-Length: 99999', b'Transfer-Encoding: chunked',
                               b'Transfer-Encoding: gzip, chunked', b'Transfer-Encoding: identity', b'Host: other.test', b'Connection: close',
                               b'Connection: keep-alive, Upgrade', b'Upgrade: websocket', b'Expect: 100-continue', b'Content-Length: 5, 5'])).map(list),
    st.just(['barelf']),
    st.tuples(st.just('insert'), st.integers(0, 4000), st.sampled_from([b'\r\n', b'\n', b'\r', b' ', b'\x00', b'\xff', b': ', b'\r\n\r\n'])).map(list),
)


@st.composite
def input_cases(draw: Any, what: str) -> Dict[str, Any]:
    c: Dict[str, Any] = {'what': what, 'refuse': draw(st.booleans()), 'cuts': draw(st.lists(st.integers(1, 4000), max_size=5)),
                         'schedule': draw(st.lists(st.integers(0, 2), max_size=12))}
    if draw(st.integers(0, 5)) == 0:
        c['pp'] = draw(st.integers(0, len(PP_LINES) - 1))
    if what == 'sequence':
        c.pop('pp', None)
        c['refuse'] = False
        c['reqs'] = []
        for _ in range(draw(st.integers(2, 4))):
            q_ = draw(G.request_spec(form='origin', framings=('none', 'cl'), max_body=40, max_headers=3, versions=(b'HTTP/1.1',)))
            q_['target'] = draw(st.sampled_from([b'/gen/10/1/1', b'/gen/300/2/3', b'/gen/0/0/1', b'/nothing-here', b'/', b'/gen', b'/vfws', b'/%zz',
                                                 b'/gen/10/1/1?x=1', b'/nothing?x=/gen/']))
            c['reqs'].append(q_)
        return c
    if what == 'random':
        c['data'] = draw(st.one_of(st.binary(max_size=120),
                                   st.lists(st.sampled_from([b'GET', b'CONNECT', b' ', b'/', b'http://', b'h', b':', b'80', b'HTTP/1.1', b'\r\n',
                                                             b'\n', b'Host', b'Content-Length', b'0', b'5', b'65536', b'-1', b'\x00', b'\xff', b'Transfer-Encoding',
                                                             b'chunked', b'*', b'?', b'#', b'[', b']', b'@']), max_size=24).map(b''.join)))
    else:
        form = draw(st.sampled_from(['origin', 'absolute']))
        c['req'] = draw(G.request_spec(form=form, framings=('none', 'cl', 'chunked'), max_body=80, max_headers=4, plain_chunked=True))
        if draw(st.integers(0, 5)) == 0:
            c['req']['method'] = b'CONNECT'
            c['req']['target'] = b'example.test:443'
        elif draw(st.integers(0, 5)) == 0:
            # an upgrade proposal to the web server's websocket route, complete or lacking one of its fields
            c['req']['target'] = b'/vfws'
            have = {h[0].lower() for h in c['req']['headers']}
            for h in ([b'Upgrade', b'websocket', 0], [b'Connection', b'Upgrade', 0], [b'Sec-WebSocket-Key', b'dGhlIHNhbXBsZSBub25jZQ==', 0],
                      [b'Sec-WebSocket-Version', b'13', 0]):
                if h[0].lower() not in have and draw(st.integers(0, 3)) != 0:
                    c['req']['headers'].append(h)
        c['muts'] = draw(st.lists(MUT, max_size=3)) if what == 'mutated' else []
        if what == 'conflict':
            # a request with a body whose framing fields contradict each other: a second Content-Length (other value, same value,
            # list value), Transfer-Encoding next to Content-Length, unknown codings - placed before or after the original field
            c['req'] = draw(G.request_spec(form=form, framings=('cl', 'chunked'), max_body=80, max_headers=3, plain_chunked=True))
            k = draw(st.integers(0, 12))
            line = draw(st.sampled_from([b'Content-Length: 0', b'Content-Length: 7', b'content-length: 5', b'Content-Length: 99999',
                                         b'Content-Length: %d' % len(c['req']['body']), b'Content-Length: %d, %d' % (len(c['req']['body']), len(c['req']['body'])),
                                         b'Transfer-Encoding: chunked', b'Transfer-Encoding: gzip, chunked', b'Transfer-Encoding: identity',
                                         b'Transfer-Encoding: chunked, chunked', b'Content-Length: +5', b'Content-Length: 0x5']))
            c['muts'] = [['addheader', k, line]] + draw(st.lists(st.tuples(st.just('addheader'), st.integers(0, 12), st.just(line)).map(list), max_size=1))
    return c


@st.composite
def builder_cases(draw: Any) -> Dict[str, Any]:
    b = draw(st.sampled_from(['build_http_response', 'okResponse', 'rejected', 'redirect', 'canned', 'ws_handshake', 'static']))
    c: Dict[str, Any] = {'builder': b}
    hs = draw(G.header_list(0, 4, exclude=G.RESERVED | {'content-type', 'server', 'location', 'cache-control'}))
    if b in ('build_http_response', 'rejected'):
        c.update(code=draw(st.sampled_from([200, 201, 301, 400, 403, 404, 407, 418, 451, 500, 502, 503, 599])),
                 reason=draw(st.sampled_from([b'OK', b'Not Found', b'Multi Word Reason', b'x'])), headers=hs,
                 body=draw(st.one_of(st.none(), G.bodies(300))), conn_close=draw(st.booleans()), no_cl=draw(st.booleans()))
        if c['no_cl'] and not c['conn_close']:
            c['conn_close'] = True      # a close-delimited body needs the close; every caller in responses.py pairs them
    elif b == 'okResponse':
        mcl = draw(st.sampled_from([0, 1, 19, 20, 21, 100, 10 ** 6]))
        body = draw(st.one_of(st.none(), G.bodies(300), st.binary(min_size=max(0, mcl - 1) if mcl < 400 else 0, max_size=(mcl + 1) if mcl < 400 else 30)))
        # the builder is told the media type by its callers (static files, plugins): part of its argument space
        ctype = draw(st.sampled_from([None, b'text/html', b'text/plain; charset=utf-8', b'application/json', b'image/png', b'image/jpeg',
                                      b'application/zip', b'application/gzip', b'video/mp4', b'audio/mpeg', b'application/octet-stream',
                                      b'font/woff2', b'application/pdf']))
        if ctype is not None:
            hs = hs + [[G._recase(draw, 'Content-Type').encode(), ctype, 0]]
        c.update(headers=hs, body=body, compress=draw(st.booleans()), mcl=mcl, conn_close=draw(st.booleans()))
    elif b == 'redirect':
        c.update(perm=draw(st.booleans()), location=draw(st.sampled_from([b'/', b'http://example.test/x?y=1', b'https://a.test:8443/p%20q'])))
    elif b == 'canned':
        c['name'] = draw(st.sampled_from(['PROXY_TUNNEL_ESTABLISHED_RESPONSE_PKT', 'PROXY_TUNNEL_UNSUPPORTED_SCHEME', 'PROXY_AUTH_FAILED_RESPONSE_PKT',
                                          'BAD_REQUEST_RESPONSE_PKT', 'NOT_FOUND_RESPONSE_PKT', 'NOT_IMPLEMENTED_RESPONSE_PKT', 'BAD_GATEWAY_RESPONSE_PKT']))
    elif b == 'ws_handshake':
        c['key'] = draw(st.binary(min_size=16, max_size=16).map(__import__('base64').b64encode))
    elif b == 'static':
        c.update(size=draw(st.sampled_from([0, 1, 19, 20, 21, 300, 70000])), salt=draw(st.integers(0, 3)), mcl=draw(st.sampled_from([0, 20, 10 ** 6])),
                 ext=draw(st.sampled_from(['bin', 'txt', 'html', 'js', 'css', 'json', 'png', 'jpg', 'gif', 'zip', 'gz', 'mp4', 'pdf', 'woff2', 'svg', 'unknownext'])))
    return c


def shards(tier: str) -> List[Dict[str, Any]]:
    q = tier == 'quick'
    out = []
    for what, k_ in (('random', 3), ('valid', 2), ('mutated', 8), ('conflict', 2), ('sequence', 2)):
        for i in range(k_):
            out.append({'name': '%s-%d' % (what, i), 'kind': 'input', 'what': what, 'examples': 600 if q else 12000})
    for i in range(3):
        out.append({'name': 'builders-%d' % i, 'kind': 'builder', 'examples': 1700 if q else 30000})
    return out


def run_shard(spec: Dict[str, Any], seed: int, acc: Any) -> None:
    def chk(c: Dict[str, Any]) -> List[Any]:
        vs, info = evaluate(c)
        if 'builder' in c:
            acc.case(c, info['nt'], labels=('builder:' + c['builder'],))
            return vs
        labs = ['input:' + c['what']] + (['proxy-protocol-line:%d' % (c['pp'] % len(PP_LINES))] if c.get('pp') is not None else [])
        if info.get('dontcare'):
            acc.dontcare += 1
            labs.append('dontcare:' + info['dontcare'])
        if info.get('inconclusive'):
            acc.dontcare += 1
        if info['got']:
            labs.append('produced-a-response')
        acc.case(c, bool(info['dispatched']), labels=labs)
        return vs
    try:
        strat = builder_cases() if spec['kind'] == 'builder' else input_cases(spec['what'])
        hyp.drive(strat, chk, acc, max_examples=spec['examples'], seed=seed, max_rounds=8)
    finally:
        from vf.props import c07
        c07.cleanup_static()
        _FLAGS.clear()
