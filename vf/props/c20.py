"""C20 - idle connections are reaped after the timeout and active ones never are.

Timed traces under a virtual clock (proxy.http.handler.time is a harness object): --timeout in {1, 2, 10, 60};
a connection is put into a state that nothing but the reaper can end (established tunnel, keep-alive after a
complete exchange, half-received request, connected and silent); then a generated sequence of steps, each = advance the clock by a gap
(placed at timeout - eps, timeout + eps with eps in {1 ms, 1 s}, or far on either side) and do one of: client
sends bytes, origin sends a few bytes (delivered), origin floods while the client does not read (output stays
pending), client drains, nothing.  After every step the loop runs 2P+6 iterations with the clock standing still
(P = the reaper period the executor derives from its own fields) and the state is compared with the model:
   idle = now - last client-side read/write handled by the proxy
   idle > timeout and no output pending  -> the connection must be closed by now (bounded delay)
   idle < timeout or output pending      -> the connection must still be open
   idle == timeout                        -> don't-care
   a gap that crosses last+timeout followed by activity in the same step -> don't-care (reaper and activity race)
Threadless (real executor, real reaper schedule) and threaded (real run(), which checks before every select).
"""
import math
from typing import Any, Dict, List, Optional, Tuple

from hypothesis import strategies as st

from vf.core import hyp
from vf.harness import k as K
from vf.props.c01 import stream

ID = 'C20'
LEVEL = 'exploration'
RULE = ('Hypothesis draws the timeout, the connection state (tunnel / keep-alive / half-request), the mode (threadless / threaded) and '
        '1..6 steps (gap, action; actions: client send, nothing, origin data small / flood left pending, client drain, origin close, and for tunnels a client upload burst towards an origin that stops reading followed by partial origin reads); gaps are drawn from {timeout-1s, timeout-1ms, timeout, timeout+1ms, timeout+1s, timeout/2, 3*timeout, '
        '0}. Non-trivial: some checkpoint lies within 1 s of the threshold, or output is pending while idle >> timeout; '
        'distinct by case hash.')
ASSUMPTIONS = ['the handler reads the clock only through its module-level `time` (rebound to the virtual clock)',
               'bounded delay is measured in loop iterations: 2P+6 with P derived from the live executor']

_FLAGS: Dict[Any, Any] = {}
T0 = 1_000_000.0


def flags_for(timeout: int, mode: str) -> Any:
    key = (timeout, mode)
    if key not in _FLAGS:
        _FLAGS[key] = K.make_flags(['--threaded' if mode == 'threaded' else '--threadless', '--timeout', str(timeout)])
    return _FLAGS[key]


def gap_value(g: str, timeout: int) -> float:
    return {'t-1s': timeout - 1.0, 't-1ms': timeout - 0.001, 't': float(timeout), 't+1ms': timeout + 0.001, 't+1s': timeout + 1.0,
            't/2': timeout / 2.0, '3t': 3.0 * timeout, '0': 0.0}[g]


def run_case(c: Dict[str, Any]) -> Dict[str, Any]:
    timeout, mode = c['timeout'], c['mode']
    flags = flags_for(timeout, mode)
    K.CLOCK.reset()
    K.CLOCK.virtual = T0
    w = K.World(flags, sndbuf=4096, max_iters=200000, settle=10 ** 9)
    w.reaper_period = 12
    state = c['state']
    if state == 'tunnel':
        first = b'CONNECT idle.test:443 HTTP/1.1\r\nHost: idle.test:443\r\n\r\n'
    elif state == 'keepalive':
        first = b'GET http://idle.test/a HTTP/1.1\r\nHost: idle.test\r\n\r\n'
    elif state == 'silent':
        first = b''      # connects and never sends a byte
    else:
        first = b'GET http://idle.test/a HTTP/1.1\r\nHost: idl'
    client = K.Peer('client', out=first, read_in_drain=True)
    w.add_client(client)
    origin_box: List[K.Peer] = []

    def fac(world: K.World, addr: Tuple[str, int], idx: int) -> Tuple[K.Peer, Optional[Dict[str, Any]]]:
        o = K.Peer('origin')
        if state == 'keepalive':
            o.out += b'HTTP/1.1 200 OK\r\nContent-Length: 2\r\n\r\nok'
        origin_box.append(o)
        return o, None
    w.origin_factory = fac
    w.order = ['client', 'origin']
    P_box: Dict[str, int] = {}
    trace: List[Dict[str, Any]] = []
    model = {'last': T0, 'pending': False, 'closed_expected': None}
    ctl = {'step': -1, 'wait': 0, 'done': False, 'violations': [], 'closed_seen_at': None}

    def is_closed() -> bool:
        if mode == 'threaded':
            return bool(getattr(w, 'run_returned', False))
        ex = w.executor
        return ex is not None and len(ex.works) == 0 and client.opened_iter is not None and w.iter > (client.opened_iter + 2)

    def period() -> int:
        if mode == 'threaded':
            return 1
        ex = w.executor
        import proxy.core.work.threadless as tl
        return int(math.ceil(ex.cleanup_inactive_timeout / (tl.DEFAULT_SELECTOR_SELECT_TIMEOUT + ex.wait_timeout)))

    def checkpoint(label: str) -> None:
        now = K.CLOCK.virtual or 0.0
        idle = now - model['last']
        pending = model['pending']
        closed = is_closed()
        rec = {'step': label, 'now': now - T0, 'idle': round(idle, 6), 'pending': pending, 'closed': closed}
        trace.append(rec)
        if model.get('race'):
            # the clock jumped past last+timeout BEFORE this step's activity happened: the connection was legitimately
            # reapable during the gap, and whether the reaper or the activity came first is a race - either outcome is fine
            rec['dontcare'] = True
            model['race'] = False
            return
        if model.get('upstream_closed') and not pending:
            # the origin has closed and everything it sent is delivered: the proxy ends such a connection by itself, reaper or not
            rec['dontcare'] = True
            return
        if pending or idle < timeout:
            if closed:
                ctl['violations'].append(('active-connection-reaped', rec))
        elif idle > timeout:
            if not closed:
                ctl['violations'].append(('idle-connection-not-reaped', rec))
        else:
            rec['dontcare'] = True

    def apply(step: Dict[str, Any]) -> None:
        K.CLOCK.virtual = (K.CLOCK.virtual or T0) + gap_value(step['gap'], timeout)
        now = K.CLOCK.virtual
        a = step['action']
        if not model['pending'] and (now - model['last']) > timeout and a in ('client_send', 'origin_small', 'origin_flood', 'client_drain', 'origin_close', 'client_upload'):
            model['race'] = True
        if a == 'client_send':
            client.out += b'x' * 7 if state != 'half' else b'e'
            model['last'] = now
        elif a == 'origin_small' and origin_box:
            origin_box[0].out += b'y' * 5
            if not model['pending']:
                model['last'] = now      # delivered to the client at once: a client-side write
        elif a == 'origin_flood' and origin_box:
            client.read_in_drain = False
            origin_box[0].out += stream(300000, 3)
            model['pending'] = True
        elif a == 'origin_close' and origin_box:
            # the origin goes away; what it had sent and the client has not read yet stays queued in the proxy
            origin_box[0].do_close()
            model['upstream_closed'] = True
        elif a == 'client_upload' and origin_box and state == 'tunnel':
            # the client sends a burst and falls silent; the origin stops reading, so most of it stays queued in the proxy towards
            # the UPSTREAM.  Client-side traffic: the proxy's reads of the burst, now.  (Nothing is queued towards the client.)
            origin_box[0].read_in_drain = False
            client.out += stream(200000, 5)
            model['last'] = now
        elif a == 'origin_read_some' and origin_box and state == 'tunnel':
            # the origin takes some of what is queued for it: the proxy's upstream socket becomes writable and is flushed - traffic
            # on the upstream side only, which is not what keeps a client connection alive
            origin_box[0]._read_some(40000)
        elif a == 'client_drain':
            client.read_in_drain = True
            if model['pending']:
                model['pending'] = False
                model['last'] = now      # the rest is flushed now: client-side writes at `now`
        # 'nothing': only the clock moves

    def tick(world: K.World) -> None:
        if ctl['done']:
            return
        if 'P' not in P_box and (world.executor is not None or mode == 'threaded'):
            P_box['P'] = period()
        if ctl['wait'] > 0:
            ctl['wait'] -= 1
            return
        N = 2 * P_box.get('P', 12) + 6
        if ctl['step'] >= 0:
            checkpoint('after-step-%d' % ctl['step'])
        else:
            checkpoint('established')
        if ctl['violations'] or is_closed() or ctl['step'] + 1 >= len(c['steps']):
            ctl['done'] = True
            return
        ctl['step'] += 1
        apply(c['steps'][ctl['step']])
        # a flood / drain needs many iterations to move its bytes; the clock stands still meanwhile
        ctl['wait'] = N + (400 if c['steps'][ctl['step']]['action'] in ('origin_flood', 'client_drain', 'origin_close', 'client_upload') else 0)
    ctl['wait'] = 40       # establish the connection first
    w.on_iteration = tick
    w.stop_when = lambda world: ctl['done']
    K.run_mode(w, 'threaded' if mode == 'threaded' else 'local')
    if mode == 'threaded' and not ctl['done']:
        # run() returned (connection closed) before the trace ended: evaluate the checkpoint that was due
        checkpoint('after-run-returned')
    K.CLOCK.reset()
    return {'world': w, 'trace': trace, 'violations': ctl['violations'], 'P': P_box.get('P')}


def evaluate(c: Dict[str, Any]) -> Tuple[List[Any], Dict[str, Any]]:
    r = run_case(c)
    w: K.World = r['world']
    feat = {'mode': c['mode'], 'state': c['state']}
    near = any(abs(t['idle'] - c['timeout']) <= 1.0 for t in r['trace'])
    pend = any(t['pending'] and t['idle'] > 2 * c['timeout'] for t in r['trace'])
    info = {'near': near, 'pending_long': pend, 'checkpoints': len(r['trace']), 'dontcare': sum(1 for t in r['trace'] if t.get('dontcare'))}
    out: List[Any] = []
    try:
        if w.budget_exhausted:
            info['inconclusive'] = True
            return out, info
        if c['mode'] != 'threaded' and w.worker_died and not w.ended_by_script:
            return [('worker-died', dict(feat, exc=(w.exceptions or [('', 'loop-stopped')])[0][1].split(':')[0]), w.exceptions[:1], None)], info
        for (clause, rec) in r['violations'][:1]:
            step = c['steps'][int(rec['step'].rsplit('-', 1)[1])] if rec['step'].startswith('after-step') else {'gap': None, 'action': None}
            out.append((clause, dict(feat, action=step['action'], pending=rec['pending']), {'checkpoint': rec, 'trace': r['trace'][-4:], 'P': r['P']},
                        {'timeout': c['timeout']}))
        return out, info
    finally:
        w.teardown()


def replay(case: Dict[str, Any]) -> List[Dict[str, Any]]:
    if 'tls_trickle' in case:
        from vf.props import c11
        try:
            with K.unpatched():
                vs, _ = tls_trickle(case['tls_trickle'])
        finally:
            c11.cleanup()
        return [{'property': ID, 'clause': cl, 'features': ft, 'case': case, 'observed': ob, 'expected': ex} for (cl, ft, ob, ex) in vs]
    vs, _ = evaluate(case)
    return [{'property': ID, 'clause': cl, 'features': ft, 'case': case, 'observed': ob, 'expected': ex} for (cl, ft, ob, ex) in vs]


# -- live: a TLS client side (no virtual clock possible: the record layer lives in OpenSSL) ------------------------------------

def tls_trickle(pieces: int) -> Tuple[List[Any], Dict[str, Any]]:
    """A client of a TLS listener (--key-file/--cert-file, --timeout 4) sends ONE TLS record in `pieces` segments, about a
    second apart, for longer than the timeout in total: bytes keep arriving, so the connection is active and must not be reaped;
    the request completed by the last segment must be answered.  The gaps are MEASURED: if any of them came close to the
    timeout (machine too slow) the case is inconclusive."""
    import ssl
    import time
    import socket
    import threading
    from vf.props import c11
    from proxy.common.flag import FlagParser
    from proxy.common.backports import NonBlockingQueue
    from proxy.core.work.fd.local import LocalFdExecutor
    TIMEOUT = 4
    fx = c11.fixture()
    P = fx['P']
    flags = FlagParser.initialize(['--threadless', '--enable-web-server', '--key-file', P('good-key.pem'), '--cert-file', P('good-cert.pem'),
                                   '--timeout', str(TIMEOUT)])
    import logging
    logging.disable(logging.CRITICAL)
    q = NonBlockingQueue()
    lex = LocalFdExecutor(iid='c20tls', work_queue=q, flags=flags, event_queue=None)
    th = threading.Thread(target=lex.run, daemon=True)
    th.start()
    info: Dict[str, Any] = {'max_gap': 0.0, 'total': 0.0}
    out: List[Any] = []
    a, b = socket.socketpair()
    try:
        q.put((a, ('127.0.0.1', 53000)))
        ctx = ssl.create_default_context(cafile=P('oca-cert.pem'))
        inc, outg = ssl.MemoryBIO(), ssl.MemoryBIO()
        obj = ctx.wrap_bio(inc, outg, server_hostname='localhost')
        b.settimeout(20)
        while True:
            try:
                obj.do_handshake()
                break
            except ssl.SSLWantReadError:
                d = outg.read()
                if d:
                    b.sendall(d)
                chunk = b.recv(65536)
                if not chunk:
                    info['inconclusive'] = True
                    return out, info
                inc.write(chunk)
        d = outg.read()
        if d:
            b.sendall(d)
        obj.write(b'GET /trickle HTTP/1.1\r\nHost: localhost\r\nX-Pad: ' + b'p' * 400 + b'\r\n\r\n')
        rec = outg.read()
        step = max(1, len(rec) // pieces)
        parts = [rec[i:i + step] for i in range(0, len(rec), step)]
        t0 = last = time.time()
        closed_early = None
        for i, part in enumerate(parts):
            if i:
                time.sleep(1.0)
            now = time.time()
            info['max_gap'] = max(info['max_gap'], now - last)
            last = now
            try:
                b.sendall(part)
            except OSError as e:
                closed_early = 'send failed after %.1f s: %s' % (now - t0, type(e).__name__)
                break
        info['total'] = time.time() - t0
        resp = b''
        if closed_early is None:
            deadline = time.time() + 15
            while time.time() < deadline:
                try:
                    chunk = b.recv(65536)
                except socket.timeout:
                    break
                except OSError as e:
                    closed_early = 'recv failed: %s' % type(e).__name__
                    break
                if not chunk:
                    break
                inc.write(chunk)
                try:
                    while True:
                        x = obj.read(65536)
                        if not x:
                            break
                        resp += x
                except (ssl.SSLWantReadError, ssl.SSLZeroReturnError):
                    pass
                except ssl.SSLError:
                    break
                if b'\r\n\r\n' in resp:
                    break
        if info['max_gap'] >= TIMEOUT - 1.5 or info['total'] <= TIMEOUT:
            info['inconclusive'] = True       # too slow (or too fast) a machine for this trace to mean anything
            return out, info
        if not resp.startswith(b'HTTP/1.1 '):
            out.append(('active-tls-client-reaped', {'live': True, 'tls_client_side': True},
                        {'closed': closed_early, 'answer': resp[:40], 'max_gap_s': round(info['max_gap'], 2), 'total_s': round(info['total'], 2)},
                        {'timeout': TIMEOUT, 'expected': 'bytes arrived every ~1 s: the connection is active; the completed request is answered'}))
        return out, info
    finally:
        try:
            b.close()
        except OSError:
            pass
        try:
            q.put(False)
        except Exception:
            pass


GAPS = ['t-1s', 't-1ms', 't', 't+1ms', 't+1s', 't/2', '3t', '0']


@st.composite
def cases(draw: Any, mode: str) -> Dict[str, Any]:
    state = draw(st.sampled_from(['tunnel', 'tunnel', 'keepalive', 'half', 'silent']))
    if state == 'silent':
        # only the clock moves (a first byte would turn this into the 'half' state)
        steps = [{'gap': draw(st.sampled_from(GAPS)), 'action': 'nothing'} for _ in range(draw(st.integers(1, 4)))]
        return {'timeout': draw(st.sampled_from([1, 2, 10, 60])), 'state': state, 'mode': mode, 'steps': steps}
    acts = ['client_send', 'nothing', 'nothing'] + (['origin_small', 'origin_flood', 'client_drain', 'origin_close'] if state not in ('half',) else [])
    if state == 'tunnel' and draw(st.integers(0, 2)) == 0:
        # a silent client whose upload is still draining to a slow origin
        steps = [{'gap': draw(st.sampled_from(GAPS)), 'action': 'client_upload'}] + \
                [{'gap': draw(st.sampled_from(GAPS)), 'action': draw(st.sampled_from(['origin_read_some', 'origin_read_some', 'nothing', 'client_send']))}
                 for _ in range(draw(st.integers(1, 5)))]
        return {'timeout': draw(st.sampled_from([1, 2, 10, 60])), 'state': state, 'mode': mode, 'steps': steps}
    steps = [{'gap': draw(st.sampled_from(GAPS)), 'action': draw(st.sampled_from(acts))} for _ in range(draw(st.integers(1, 6)))]
    return {'timeout': draw(st.sampled_from([1, 2, 10, 60])), 'state': state, 'mode': mode, 'steps': steps}


def shards(tier: str) -> List[Dict[str, Any]]:
    q = tier == 'quick'
    out = []
    for mode, k_ in (('local', 10), ('threaded', 6)):
        for i in range(k_):
            out.append({'name': '%s-%d' % (mode, i), 'mode': mode, 'examples': 100 if q else 2000})
    out.append({'name': 'tls-client-trickle', 'mode': 'tlslive', 'examples': 2 if q else 6})
    return out


def run_shard(spec: Dict[str, Any], seed: int, acc: Any) -> None:
    if spec['mode'] == 'tlslive':
        from vf.props import c11
        try:
            with K.unpatched():
                for i in range(spec['examples']):
                    c = {'tls_trickle': 6 + (i + seed) % 3}
                    vs, info = tls_trickle(c['tls_trickle'])
                    if info.get('inconclusive'):
                        acc.dontcare += 1
                    acc.case(c, not info.get('inconclusive'), labels=['live-tls-client-trickle', 'pieces:%d' % c['tls_trickle']])
                    for (cl, ft, ob, ex) in vs:
                        acc.fail(c, cl, ft, ob, ex)
        finally:
            c11.cleanup()
        return

    def chk(c: Dict[str, Any]) -> List[Any]:
        vs, info = evaluate(c)
        if info.get('inconclusive'):
            acc.dontcare += 1
        acc.dontcare += info['dontcare']
        labs = ['mode:' + c['mode'], 'state:' + c['state'], 'timeout:%d' % c['timeout']]
        if info['near']:
            labs.append('checkpoint-within-1s-of-threshold')
        if info['pending_long']:
            labs.append('pending-output-while-idle>>timeout')
        if any(s_['action'] == 'origin_read_some' for s_ in c['steps']):
            labs.append('silent-client-upload-draining-upstream')
        acc.case(c, info['near'] or info['pending_long'], labels=labs)
        acc.count(info['checkpoints'])
        return vs
    hyp.drive(cases(spec['mode']), chk, acc, max_examples=spec['examples'], seed=seed)
