"""C17 - threaded, local-threadless and remote-threadless modes behave identically.

Tier 1 (deterministic, harness K): one scenario = one client conversation (forward proxy with 1..3 keep-alive
requests, tunnel, web route / static / 404, reverse proxy, mutated or random request bytes, large transfers) with an
ending (nobody closes / client closes / origin closes / origin answers early and closes / connect refused), run under
the three real drivers: HttpProtocolHandler.run() (thread-per-connection), LocalFdExecutor.run(), RemoteFdExecutor.run()
(descriptor passed over a real pipe).  Oracle: the client-received bytes, each origin's received bytes (in connect
order), the connect log, and which ends saw EOF are equal across the three modes (segment boundaries ignored).
Tier 2 (real processes, harness L) lives in the thorough tier: real Proxy() instances in each mode x {1,2,4}
acceptors/workers with concurrent clients; order-insensitive oracles only.
"""
import os
from typing import Any, Dict, List, Optional, Tuple

from hypothesis import strategies as st

from vf.core import hyp
from vf.gens import http as G
from vf.harness import k as K
from vf.harness.peers import ReactiveOrigin, ReactiveClient, tag_response
from vf.props import c05, c06
from vf.props.c01 import stream

ID = 'C17'
LEVEL = 'exploration'
MODES = ['threaded', 'local', 'remote']
RULE = ('Hypothesis draws a scenario (role, requests, bodies up to 300 KB, mutated bytes, ending incl. a client half-close right after its last request byte) and runs it under the three '
        'execution-mode drivers; transcripts must be identical. Non-trivial: the scenario moves >= 1 KiB or has >= 2 requests or '
        'ends on an error path; distinct by case hash. Evaluations count scenario x mode runs.')
ASSUMPTIONS = ['the remote driver passes the client descriptor like Acceptor._work (addr, send_handle) does',
               'tier 1 is single-connection; cross-connection and multi-process effects are the thorough tier-2 part']

_F: Dict[Any, Any] = {}


def flags_for(mode: str, unix: bool = False, events: bool = False, tls: bool = False) -> Any:
    key = (mode, unix, events, tls, os.getpid())
    if key not in _F:
        from vf.props import c04, c07
        argv = {'local': ['--threadless'], 'remote': ['--threadless', '--local-executor', '0'], 'threaded': ['--threaded']}[mode]
        if unix:
            # the proxy listens on a unix socket (and possibly on extra TCP ports next to it): only the flag matters here,
            # the harness plays the acceptor
            argv += ['--unix-socket-path', os.path.join(c07.static_dir(), 'listener.sock')]
        if events:
            argv += ['--enable-events']
        if tls:
            from vf.props import c10
            k_, c_ = c10.tls_files()
            argv += ['--key-file', k_, '--cert-file', c_]
        argv += ['--enable-web-server', '--enable-static-server', '--static-server-dir', c07.static_dir(), '--enable-reverse-proxy']
        _F[key] = K.make_flags(argv, plugins=[c07.route_plugin(), c04._reverse_plugin()])
    return _F[key]


def client_for(c: Dict[str, Any]) -> K.Peer:
    role = c['role']
    if role == 'failed-setup':
        # the listener speaks TLS, this client does not: setting the work up fails in every mode, and the client must be let go
        p = K.Peer('client', out=c['data'], script=[['send', len(c['data'])]])
        p.send_before_accept = True     # type: ignore[attr-defined]
        return p
    if role == 'bytes':
        data = c['data']
        return K.Peer('client', out=data, script=[['send', max(1, len(data) // 2)], ['send', len(data)]])
    if role == 'tunnel':
        return c05.make_client('client', {'requests': [b'CONNECT t.test:443 HTTP/1.1\r\nHost: t.test:443\r\n\r\n'], 'tunnel': stream(c['size'], 1)})
    reqs = []
    for i, q in enumerate(c['requests']):
        body = stream(q['body'], i) if q['body'] else b''
        if role == 'forward':
            line = b'%s http://f.test/p%d HTTP/1.1\r\nHost: f.test\r\n' % (b'POST' if body else b'GET', i)
        elif role == 'reverse':
            line = b'%s /ra/p%d HTTP/1.1\r\nHost: front.test\r\n' % (b'POST' if body else b'GET', i)
        else:
            path = {'route': b'/gen/%d/%d/%d' % (q['size'], i, q['pieces']), 'static': None, 'nothing': b'/nothing-%d' % i}[q['to']]
            if path is None:
                from vf.props import c07
                path = c07.static_file(q['size'], i)[0].encode()
            line = b'GET ' + path + b' HTTP/1.1\r\nHost: localhost\r\n'
        if body:
            line += b'Content-Length: %d\r\n' % len(body)
        if c.get('obs_text'):
            line += b'X-Note: caf\xe9 na\xefve\r\n'
        raw = line + b'\r\n' + body
        reqs.append((raw, [x for x in q.get('cuts', []) if 0 < x < len(raw)]))
    return ReactiveClient('client', reqs)


def run_mode(c: Dict[str, Any], mode: str) -> Dict[str, Any]:
    listener = c.get('listener', 'tcp')
    w = K.World(flags_for(mode, listener in ('unix', 'unix+tcp'), bool(c.get('events')), c['role'] == 'failed-setup'), max_iters=200000, settle=6)
    client = client_for(c)
    plan = {'caps': c['caps_client']} if c.get('caps_client') else None      # short writes towards the client: output stays queued
    if listener == 'unix':
        w.add_client(client, plan=plan, addr='')       # accept() on a unix socket reports an empty peer address
    elif listener == 'tcp6':
        w.add_client(client, plan=plan, addr=('::1', 50000, 0, 0))      # what accept() reports for an IPv6 peer
    else:
        w.add_client(client, plan=plan)     # 'tcp', or 'unix+tcp': a client of one of the TCP ports next to the unix socket
    origins: List[K.Peer] = []
    ending = c['ending']

    def fac(world: K.World, addr: Tuple[str, int], idx: int) -> Tuple[K.Peer, Optional[Dict[str, Any]]]:
        if addr[1] == 443:
            o: K.Peer = c05.echo_origin('origin%d' % idx)
        elif ending == 'origin_close_after_reply':
            # the origin answers every complete request and closes right after its (large) reply: with a slow client the proxy
            # learns of the close while output is still queued
            o = ReactiveOrigin('origin%d' % idx, responder=lambda o_, raw, n: tag_response(addr[0], n, raw, extra_body=stream(max(c.get('resp_size', 0), 70000), n), close=True),
                               finish='close_after_rx')
            o.expect_rx = 1
        elif ending == 'origin_early_close':
            from vf.props.c01 import AwaitPeer
            o = AwaitPeer('origin%d' % idx, out=b'HTTP/1.1 413 Too Large\r\nConnection: close\r\nContent-Length: 3\r\n\r\nbig',
                          script=[['await_marker']], finish='close', read_in_drain=False)
            o.marker = b'\r\n\r\n'
        else:
            o = ReactiveOrigin('origin%d' % idx, responder=lambda o_, raw, n: tag_response(addr[0], n, raw, extra_body=stream(c.get('resp_size', 0), n)))
        origins.append(o)
        if o.name not in world.order:
            world.order.append(o.name)
        return o, None
    w.origin_factory = fac
    if ending == 'connect_refused':
        w.connect_plan = {0: 'refused'}
    w.order = ['client']
    epi = []
    if ending == 'client_close':
        epi.append(lambda world: client.do_close())
    elif ending == 'origin_close':
        epi.append(lambda world: [o.do_close() for o in origins])
    elif ending == 'client_shut':
        epi.append(lambda world: client.do_shut())
    elif ending == 'client_shut_early' and hasattr(client, 'shut_after_send'):
        # the client half-closes right after its last request byte and keeps reading: its descriptor is readable (EOF) and
        # writable at once while the reply is still queued
        client.shut_after_send = True
    w.at_quiescence = epi
    w.schedule = list(c.get('schedule', []))
    K.run_mode(w, mode)
    t = {'client_rx': bytes(client.inbuf), 'client_eof': client.eof_iter is not None,
         'origins_rx': [bytes(o.inbuf) for o in origins], 'origins_eof': [o.eof_iter is not None for o in origins],
         'connects': [(x['addr'], x['result']) for x in w.connect_log],
         'died': (mode != 'threaded' and w.worker_died), 'budget': w.budget_exhausted,
         'exc': (w.exceptions or [('', '')])[0][1].split(':')[0]}
    if mode == 'threaded' and not getattr(w, 'run_returned', False):
        # the harness stopped a handler that had not ended by itself: the connection is still open in this mode
        t['client_eof'] = False
    w.teardown()
    return t


def evaluate(c: Dict[str, Any]) -> Tuple[List[Any], Dict[str, Any]]:
    ts = {m: run_mode(c, m) for m in MODES}
    feat = {'role': c['role'], 'ending': c['ending'], 'listener': c.get('listener', 'tcp')}
    moved = max(len(t['client_rx']) + sum(len(x) for x in t['origins_rx']) for t in ts.values())
    info = {'moved': moved, 'nreq': len(c.get('requests', [])), 'error_path': c['role'] == 'bytes' or c['ending'] in ('connect_refused', 'origin_early_close')}
    out: List[Any] = []
    if any(t['budget'] for t in ts.values()):
        info['inconclusive'] = True
        return out, info
    for m in MODES:
        if ts[m]['died']:
            out.append(('worker-died', dict(feat, mode=m, exc=ts[m]['exc']), None, None))
    if out:
        return out, info
    ref = ts['local']
    for m in ('threaded', 'remote'):
        fields = ['client_rx', 'client_eof', 'origins_rx', 'origins_eof', 'connects']
        if c['ending'] == 'origin_early_close':
            # how much of the request body the origin happened to read before it closed depends on how many loop
            # iterations a mode needs, not on behaviour: only what the client gets is compared
            fields = ['client_rx', 'client_eof', 'connects']
        diff = [k_ for k_ in fields if ts[m][k_] != ref[k_]]
        if diff:
            def brief(v: Any) -> Any:
                if isinstance(v, bytes):
                    return {'len': len(v), 'tail': v[-48:]}
                if isinstance(v, list):
                    return [brief(x) for x in v]
                return v
            out.append(('modes-diverge', dict(feat, pair='local-vs-' + m, fields=diff),
                        {k_: brief(ts[m][k_]) for k_ in diff}, {k_: brief(ref[k_]) for k_ in diff}))
    return out, info


def replay(case: Dict[str, Any]) -> List[Dict[str, Any]]:
    vs, _ = evaluate(case)
    return [{'property': ID, 'clause': cl, 'features': ft, 'case': case, 'observed': ob, 'expected': ex} for (cl, ft, ob, ex) in vs]


@st.composite
def cases(draw: Any) -> Dict[str, Any]:
    role = draw(st.sampled_from(['forward', 'forward', 'tunnel', 'web', 'reverse', 'bytes', 'failed-setup']))
    c: Dict[str, Any] = {'role': role, 'schedule': draw(st.lists(st.integers(0, 3), max_size=30)),
                         'listener': draw(st.sampled_from(['tcp', 'tcp', 'tcp', 'unix', 'unix+tcp', 'tcp6'])),
                         'caps_client': draw(st.lists(st.sampled_from([1, 7, 64, 1460, None]), min_size=1, max_size=4)) if draw(st.integers(0, 3)) == 0 else None,
                         'events': draw(st.integers(0, 3)) == 0, 'obs_text': draw(st.integers(0, 3)) == 0}
    sizes = st.sampled_from([0, 1, 20, 300, 5000, 70000, 300000])
    if role == 'failed-setup':
        c['data'] = draw(st.sampled_from([b'GET / HTTP/1.1\r\nHost: localhost\r\n\r\n', b'\x16\x03\x01\x00\x05hello', b'\x00' * 40, b'CONNECT a:1 HTTP/1.1\r\n\r\n']))
        c['ending'] = draw(st.sampled_from(['none', 'client_close']))
        c['listener'] = 'tcp'
        return c
    if role == 'bytes':
        ic = draw(c06.input_cases(draw(st.sampled_from(['random', 'mutated', 'mutated']))))
        c['data'] = ic['data'] if ic['what'] == 'random' else c06.mutate(G.render(ic['req']), ic['muts'])
        c['ending'] = draw(st.sampled_from(['none', 'client_close', 'client_shut', 'connect_refused']))
        return c
    if role == 'tunnel':
        c['size'] = draw(sizes)
        c['ending'] = draw(st.sampled_from(['none', 'client_close', 'origin_close', 'connect_refused']))
        return c
    n = draw(st.integers(1, 3))
    reqs = []
    for i in range(n):
        q: Dict[str, Any] = {'body': draw(sizes) if role != 'web' else 0, 'cuts': draw(st.lists(st.integers(1, 300), max_size=2))}
        if role == 'web':
            last = i == n - 1
            q.update(to=draw(st.sampled_from(['route', 'route', 'static', 'nothing'])) if last else 'route', size=draw(sizes), pieces=draw(st.sampled_from([1, 3])))
        reqs.append(q)
    c['requests'] = reqs
    c['resp_size'] = draw(sizes)
    endings = ['none', 'client_close', 'client_shut']
    if role == 'web' and all(q.get('to') == 'route' for q in reqs):
        endings += ['client_shut_early', 'client_shut_early']
    if role in ('forward', 'reverse'):
        endings += ['origin_close', 'connect_refused', 'origin_close_after_reply']      # an origin that answers early and closes is a race by nature: C07 covers it per mode
    c['ending'] = draw(st.sampled_from(endings))
    if c['ending'] == 'origin_close_after_reply':
        c['requests'] = reqs[:1]      # what a client does on a connection the origin has ended is a race, one exchange only
    return c


def shards(tier: str) -> List[Dict[str, Any]]:
    q = tier == 'quick'
    out = [{'name': 'scenarios-%02d' % i, 'examples': 100 if q else 2000} for i in range(16)]
    if not q:
        for mode in MODES:
            out.append({'name': 'live-%s' % mode, 'kind': 'live', 'mode': mode})
    return out


def run_shard(spec: Dict[str, Any], seed: int, acc: Any) -> None:
    from vf.props import c07
    if spec.get('kind') == 'live':
        try:
            for (a, wk) in ((1, 1), (2, 2), (4, 4), (1, 4), (4, 1)):
                for rnd in range(3):
                    vs, info = live_round(spec['mode'], a, wk, 12, seed + rnd)
                    case = {'live': True, 'mode': spec['mode'], 'acceptors': a, 'workers': wk, 'round': rnd}
                    acc.case(case, True, labels=('live', 'mode:' + spec['mode'], 'acceptors:%d' % a, 'workers:%d' % wk))
                    acc.count(info['conversations'])
                    acc.dontcare += info['inconclusive']
                    for (cl, ft, ob, ex) in vs:
                        acc.fail(case, cl, ft, ob, ex)
        finally:
            c07.cleanup_static()
            _F.clear()
        return
    try:
        def chk(c: Dict[str, Any]) -> List[Any]:
            vs, info = evaluate(c)
            if info.get('inconclusive'):
                acc.dontcare += 1
            acc.case(c, info['moved'] >= 1024 or info['nreq'] >= 2 or info['error_path'], labels=('role:' + c['role'], 'ending:' + c['ending'], 'listener:' + c.get('listener', 'tcp')) + (('events-enabled',) if c.get('events') else ()))
            acc.count(2)
            acc.size('max_bytes_moved', info['moved'])
            return vs
        hyp.drive(cases(), chk, acc, max_examples=spec['examples'], seed=seed, max_rounds=8)
    finally:
        c07.cleanup_static()
        _F.clear()


# ---------------------------------------------------------------------------------------------------------------
# Tier 2 (thorough): real Proxy() processes in each mode x {1,2,4} acceptors/workers, concurrent clients against a
# shared loopback origin.  Schedules are not owned, so the oracle is order-insensitive: per client connection the
# concatenated bytes received must equal what the deterministic local-mode reference run (harness K, tier 1 driver)
# produced for the same conversation.  A deadline hit is inconclusive; a divergence is re-run twice sequentially and
# only reported if it persists.

def _live_conversation(kind: str, i: int, oport: int) -> Dict[str, Any]:
    auth = b'127.0.0.1:%d' % oport
    body = stream(2000 + 37 * i, i)
    if kind == 'forward':
        reqs = [b'POST http://%s/live/%d/%d HTTP/1.1\r\nHost: %s\r\nContent-Length: %d\r\n\r\n' % (auth, i, j, auth, len(body)) + body for j in range(1 + i % 3)]
        return {'requests': reqs, 'tunnel': None}
    if kind == 'tunnel':
        return {'requests': [b'CONNECT %s HTTP/1.1\r\nHost: %s\r\n\r\n' % (auth, auth)], 'tunnel': b'GET /tunnelled/%d HTTP/1.1\r\nHost: x\r\nContent-Length: %d\r\n\r\n' % (i, len(body)) + body}
    if kind == 'web':
        return {'requests': [b'GET /gen/%d/%d/3 HTTP/1.1\r\nHost: localhost\r\n\r\n' % (3000 + i, i)], 'tunnel': None}
    if kind == 'notfound':
        return {'requests': [b'GET /nothing-%d HTTP/1.1\r\nHost: localhost\r\n\r\n' % i], 'tunnel': None}
    raise ValueError(kind)


def _live_origin() -> Any:
    import socket
    import threading

    class O(threading.Thread):
        def __init__(self) -> None:
            super().__init__(daemon=True)
            self.ls = socket.socket(socket.AF_INET, socket.SOCK_STREAM)
            self.ls.setsockopt(socket.SOL_SOCKET, socket.SO_REUSEADDR, 1)
            self.ls.bind(('127.0.0.1', 0))
            self.ls.listen(128)
            self.port = self.ls.getsockname()[1]
            self.stop = False

        def run(self) -> None:
            self.ls.settimeout(0.2)
            while not self.stop:
                try:
                    s, _ = self.ls.accept()
                except socket.timeout:
                    continue
                except OSError:
                    return
                threading.Thread(target=self.serve, args=(s,), daemon=True).start()

        def serve(self, s: Any) -> None:
            from vf.refs import http_ref as H
            s.settimeout(20)
            buf = b''
            n_ = 0
            try:
                while True:
                    chunk = s.recv(65536)
                    if not chunk:
                        break
                    buf += chunk
                    while True:
                        try:
                            ln = H.message_length(buf)
                        except Exception:
                            ln = None
                        if ln is None:
                            break
                        raw, buf = buf[:ln], buf[ln:]
                        n_ += 1
                        s.sendall(tag_response('live-origin', n_, raw))
            except OSError:
                pass
            finally:
                try:
                    s.close()
                except OSError:
                    pass
    o = O()
    o.start()
    return o


def _live_client(pport: int, conv: Dict[str, Any], deadline: float) -> Tuple[bytes, str]:
    import socket
    import time as _t
    from vf.refs import http_ref as H
    s = socket.socket(socket.AF_INET, socket.SOCK_STREAM)
    s.settimeout(5)
    got = b''
    try:
        s.connect(('127.0.0.1', pport))
        for r in conv['requests']:
            s.sendall(r)
            off = len(got)
            while _t.time() < deadline:
                try:
                    ch = s.recv(65536)
                except socket.timeout:
                    continue
                if not ch:
                    return got, 'eof'
                got += ch
                if conv['tunnel'] is not None and b'\r\n\r\n' in got:
                    break
                try:
                    if conv['tunnel'] is None and H.message_length(got[off:]) is not None:
                        break
                except Exception:
                    pass
            else:
                return got, 'timeout'
        if conv['tunnel'] is not None:
            s.sendall(conv['tunnel'])
            off = len(got)
            while _t.time() < deadline:
                try:
                    ch = s.recv(65536)
                except socket.timeout:
                    continue
                if not ch:
                    return got, 'eof'
                got += ch
                try:
                    if H.message_length(got[off:]) is not None:
                        break
                except Exception:
                    pass
            else:
                return got, 'timeout'
        return got, 'ok'
    except OSError as e:
        return got, 'error:%s' % type(e).__name__
    finally:
        s.close()


def _reference(kind: str, conv: Dict[str, Any]) -> bytes:
    """The same conversation through the deterministic local-mode driver (tier 1 machinery)."""
    w = K.World(flags_for('local'), max_iters=60000, settle=6)
    client = c05.make_client('client', conv)
    if conv['tunnel'] is not None:
        client.script = [['send', len(conv['requests'][0])], ['await_ack', False], ['send', len(conv['tunnel'])]]
    w.add_client(client)

    def fac(world: K.World, addr: Tuple[str, int], idx: int) -> Tuple[K.Peer, Optional[Dict[str, Any]]]:
        o = ReactiveOrigin('origin%d' % idx, responder=lambda o_, raw, n: tag_response('live-origin', n, raw))
        world.order.append(o.name)
        return o, None
    w.origin_factory = fac
    w.order = ['client']
    w.run_local()
    got = bytes(client.inbuf)
    w.teardown()
    return got


def live_round(mode: str, acceptors: int, workers: int, nclients: int, seed: int) -> Tuple[List[Any], Dict[str, Any]]:
    import time as _t
    import threading
    import multiprocessing
    from proxy import Proxy
    from vf.props import c04, c07
    multiprocessing.current_process()._config['daemon'] = False     # type: ignore[attr-defined]
    origin = _live_origin()
    kinds = ['forward', 'tunnel', 'web', 'notfound']
    convs = [(kinds[(i + seed) % len(kinds)], _live_conversation(kinds[(i + seed) % len(kinds)], i, origin.port)) for i in range(nclients)]
    refs = [_reference(k_, cv) for k_, cv in convs]
    argv = {'local': ['--threadless'], 'remote': ['--threadless', '--local-executor', '0'], 'threaded': ['--threaded']}[mode]
    argv += ['--hostname', '127.0.0.1', '--port', '0', '--num-acceptors', str(acceptors), '--num-workers', str(workers),
             '--enable-web-server', '--enable-static-server', '--static-server-dir', c07.static_dir(), '--enable-reverse-proxy']
    out: List[Any] = []
    info = {'inconclusive': 0, 'conversations': nclients}
    feat = {'mode': mode, 'acceptors': acceptors, 'workers': workers}
    p = Proxy(argv, plugins=[c07.route_plugin(), c04._reverse_plugin()])
    import logging
    unp = K.unpatched()
    unp.__enter__()
    try:
        p.setup()
        logging.disable(logging.CRITICAL)
        results: List[Any] = [None] * nclients
        deadline = _t.time() + 30

        def run(i: int) -> None:
            results[i] = _live_client(p.flags.port, convs[i][1], deadline)
        ths = [threading.Thread(target=run, args=(i,), daemon=True) for i in range(nclients)]
        for t in ths:
            t.start()
        for t in ths:
            t.join(40)
        for i, res in enumerate(results):
            if res is None or res[1] == 'timeout':
                info['inconclusive'] += 1
                continue
            got, st_ = res
            if got != refs[i]:
                # re-run this conversation alone, twice, sequentially: only a persistent divergence counts
                again = [_live_client(p.flags.port, convs[i][1], _t.time() + 30) for _ in range(2)]
                if all(a[0] != refs[i] and a[1] != 'timeout' for a in again):
                    out.append(('live-mode-diverges-from-reference', dict(feat, kind=convs[i][0]),
                                {'len': len(got), 'status': st_, 'tail': got[-60:]}, {'len': len(refs[i]), 'tail': refs[i][-60:]}))
    finally:
        try:
            p.shutdown()
        except BaseException as e:
            out.append(('shutdown-raised', dict(feat, exc=type(e).__name__), repr(e), None))
        unp.__exit__()
        origin.stop = True
        try:
            origin.ls.close()
        except OSError:
            pass
    return out, info
