"""C07 - queued output is fully delivered before the proxy closes a connection.

Sources of final output: (a) proxy error responses (400 / 404 / 407 / 502), (b) static-file replies of any size and
a route plugin reply followed by a pipelined 'Connection: close' request, (c) origin data followed by origin close
at any point relative to the client's reads.  Client read pace, per-send caps / would-block on the client socket,
SO_SNDBUF and --max-sendbuf-size are generated; threadless (real executor loop) and threaded (real run() incl. the
blocking _flush() in shutdown()) modes.
Oracle: what the client has at EOF is the complete expected output (decoded by h11 where the bytes are the proxy's
own), EOF is not seen earlier, and it is seen within B iterations once the client is reading and has the last byte.
"""
import os
import gzip
import tempfile
from typing import Any, Dict, List, Optional, Tuple

from hypothesis import strategies as st

from vf.core import hyp
from vf.harness import k as K
from vf.refs import http_ref as H
from vf.props.c01 import stream, SIZES, AwaitPeer

ID = 'C07'
LEVEL = 'exploration'
PROMPT_B = 5
RULE = ('Hypothesis draws the output source (error response 400/404/407/502; static file 1 B..256 KiB quick / 8 MiB thorough; '
        'route reply + pipelined close; origin stream then origin close), the client script of read(n)/idle ops (pace, long '
        'pauses), per-send caps incl. would-block for the client socket, SO_SNDBUF, --max-sendbuf-size, the schedule and the '
        'mode (threadless / threaded). Non-trivial: teardown was requested while >= 1 byte was still queued AND a later send '
        'was short or blocked; distinct by hash of the case. Promptness bound B = %d loop iterations.' % PROMPT_B)
ASSUMPTIONS = ['AF_UNIX pairs stand in for TCP', 'h11 decodes the proxy-generated responses']

_TMP: Dict[str, str] = {}
_FLAGS: Dict[Any, Any] = {}


def static_dir() -> str:
    # per process: shards are forked from a parent that may have created its own directory for pinned replays
    if _TMP.get('pid') != os.getpid():
        _TMP['pid'] = os.getpid()     # type: ignore[assignment]
        _TMP['d'] = tempfile.mkdtemp(prefix='vf-static-')
        _FLAGS.clear()
        import atexit
        import shutil
        atexit.register(lambda d=_TMP['d'], pid=os.getpid(): os.getpid() == pid and shutil.rmtree(d, ignore_errors=True))
    return _TMP['d']


def cleanup_static() -> None:
    if _TMP.get('pid') == os.getpid() and 'd' in _TMP:
        import shutil
        shutil.rmtree(_TMP.pop('d'), ignore_errors=True)
        _TMP.pop('pid', None)
        _FLAGS.clear()


def static_file(n: int, salt: int, ext: str = 'bin') -> Tuple[str, bytes]:
    name = 'f_%d_%d.%s' % (n, salt, ext)
    p = os.path.join(static_dir(), name)
    data = stream(n, salt)
    if not os.path.exists(p):
        with open(p, 'wb') as f:
            f.write(data)
    return '/' + name, data


def route_plugin() -> Any:
    if 'plugin' in _TMP:
        return _TMP['plugin']
    from proxy.http.server import HttpWebServerBasePlugin, httpProtocolTypes
    from proxy.http.responses import okResponse

    class VfRoute(HttpWebServerBasePlugin):
        """GET /gen/<size>/<salt>/<pieces>: deterministic body queued in <pieces> pieces."""

        def routes(self) -> List[Tuple[int, str]]:
            return [(httpProtocolTypes.HTTP, r'/gen/')]

        def handle_request(self, request: Any) -> None:
            parts = (request.path or b'').split(b'?')[0].split(b'/')
            if len(parts) < 5 or parts[1] != b'gen':
                # a request this plugin never registered a route for was handed to it
                self.client.queue(okResponse(content=b'HANDLED-BY-THE-WRONG-ROUTE-PLUGIN', compress=False))
                return
            size, salt, pieces = int(parts[2]), int(parts[3]), max(1, int(parts[4]))
            body = stream(size, salt)
            raw = bytes(okResponse(content=body, headers={b'Content-Type': b'application/octet-stream'}, compress=False))
            step = max(1, (len(raw) + pieces - 1) // pieces)
            for i in range(0, len(raw), step):
                self.client.queue(memoryview(raw[i:i + step]))
    _TMP['plugin'] = VfRoute
    return VfRoute


def flags_for(mode: str, max_sendbuf: Optional[int], auth: bool) -> Any:
    key = (mode, max_sendbuf, auth)
    if key not in _FLAGS:
        argv = ['--threaded' if mode == 'threaded' else '--threadless', '--enable-web-server', '--enable-static-server',
                '--static-server-dir', static_dir()]
        if max_sendbuf:
            argv += ['--max-sendbuf-size', str(max_sendbuf)]
        opts: Dict[str, Any] = {'plugins': [route_plugin()]}
        if auth:
            opts['basic_auth'] = 'user:pass'
        _FLAGS[key] = K.make_flags(argv, **opts)
    return _FLAGS[key]


def build(c: Dict[str, Any]) -> Tuple[bytes, Dict[str, Any]]:
    """client bytes to send and the expectation"""
    src = c['source']
    if src == 'err400':
        return b'GET ftp://example.test/ HTTP/1.1\r\nHost: x\r\n\r\n' if c.get('variant') else b'NONSENSE\r\n\r\n', {'codes': [400]}
    if src == 'err404':
        return b'GET /nope-%d HTTP/1.1\r\nHost: localhost\r\n\r\n' % c.get('variant', 0), {'codes': [404]}
    if src == 'err407':
        return b'GET http://example.test/ HTTP/1.1\r\nHost: example.test\r\n\r\n', {'codes': [407]}
    if src == 'err502':
        return b'GET http://unreachable.test/ HTTP/1.1\r\nHost: unreachable.test\r\n\r\n', {'codes': [502]}
    if src == 'static':
        path, data = static_file(c['size'], c['salt'])
        return b'GET ' + path.encode() + b' HTTP/1.1\r\nHost: localhost\r\n\r\n', {'codes': [200], 'bodies': [data]}
    if src == 'route_close':
        p = b'/gen/%d/%d/%d' % (c['size'], c['salt'], c['pieces'])
        first = b'GET ' + p + b' HTTP/1.1\r\nHost: localhost\r\n\r\n'
        second = b'GET ' + p + b' HTTP/1.1\r\nHost: localhost\r\nConnection: close\r\n\r\n'
        return first + second, {'codes': [200, 200], 'bodies': [stream(c['size'], c['salt'])] * 2, 'await_first': len(first)}
    if src == 'origin_close':
        return b'GET http://example.test/x HTTP/1.1\r\nHost: example.test\r\n\r\n', {'raw': True}
    if src == 'origin_early_close':
        # the origin answers on the request head (e.g. an early 413) and closes without reading the body: the proxy's
        # next write upstream fails, and what it had already received from upstream must still reach the client
        body = stream(c['req_body'], 7)
        return (b'POST http://example.test/up HTTP/1.1\r\nHost: example.test\r\nContent-Length: %d\r\n\r\n' % len(body)) + body, \
            {'raw': True, 'received_only': True}
    raise ValueError(src)


class PacedClient(K.Peer):
    """Sends the request (for route_close: the second request only after the first response started), then follows
    its read script; in drain mode keeps reading."""
    second_at: Optional[int] = None
    script_done_iter: Optional[int] = None

    def act(self) -> None:
        super().act()
        if self.script_done and self.script_done_iter is None and self.world is not None:
            self.script_done_iter = self.world.iter


def run_case(c: Dict[str, Any]) -> Dict[str, Any]:
    req, exp = build(c)
    mode = c.get('mode', 'local')
    flags = flags_for(mode, c.get('max_sendbuf'), c['source'] == 'err407')
    w = K.World(flags, sndbuf=c.get('sndbuf'), max_iters=c.get('max_iters', 80000))
    script: List[List[Any]] = []
    if 'await_first' in exp:
        script += [['send', exp['await_first']], ['read', 1], ['send', len(req)]]
    else:
        script += [['send', len(req)]]
    script += c['c_ops']
    client = PacedClient('client', out=req, script=script)
    w.add_client(client, plan={'caps': c.get('caps_client')})
    ostream = b''
    if c['source'] == 'origin_early_close':
        ostream = b'HTTP/1.1 413 Payload Too Large\r\nConnection: close\r\nContent-Length: %d\r\n\r\n' % c['size'] + stream(c['size'], c['salt'])

        def fac2(world: K.World, addr: Tuple[str, int], idx: int) -> Tuple[K.Peer, Optional[Dict[str, Any]]]:
            o = AwaitPeer('origin', out=ostream, script=[['await_marker']] + c['o_ops'], finish='close', read_in_drain=False)
            o.marker = b'\r\n\r\n'
            return o, {'caps': c.get('caps_up')}
        w.origin_factory = fac2
    if c['source'] == 'origin_close':
        ostream = b'HTTP/1.1 200 OK\r\nConnection: close\r\n\r\n' + stream(c['size'], c['salt'])

        def fac(world: K.World, addr: Tuple[str, int], idx: int) -> Tuple[K.Peer, Optional[Dict[str, Any]]]:
            # the origin answers (and later closes) only after it has the complete request
            o = AwaitPeer('origin', out=ostream, script=[['await_marker']] + c['o_ops'], finish='close')
            o.marker = b'\r\n\r\n'
            return o, None
        w.origin_factory = fac
    if c['source'] == 'err502':
        w.connect_plan = {0: c.get('connect_fault', 'refused')}
    w.order = ['client', 'origin']
    w.schedule = c['schedule']
    # observation of "teardown requested while output still queued"
    state = {'pending_at_teardown': False}

    def watch(world: K.World) -> None:
        ex = world.executor
        works = list(ex.works.values()) if ex is not None else [getattr(world, 'threaded_work', None)]
        for wk in works:
            if wk is not None and getattr(wk, 'must_flush_before_shutdown', False) and wk.work.has_buffer():
                state['pending_at_teardown'] = True
            if wk is not None and getattr(wk, 'reads_teared', False) and wk.work.has_buffer():
                state['pending_at_teardown'] = True
    w.on_iteration = watch
    if mode == 'threaded':
        w.run_threaded('client')     # type: ignore[attr-defined]
        if w.run_returned:     # type: ignore[attr-defined]
            w.finish_peers()
        # else: the harness stopped a handler that had not closed by itself; what the forced shutdown() then does
        # is not the behaviour under test, the client's view is the one at the moment of the stop
    else:
        w.run_local()
    return {'world': w, 'client': client, 'exp': exp, 'ostream': ostream, 'state': state}


def evaluate(c: Dict[str, Any]) -> Tuple[List[Any], Dict[str, Any]]:
    r = run_case(c)
    w: K.World = r['world']
    client: PacedClient = r['client']
    exp = r['exp']
    feat = {'source': c['source'], 'mode': c.get('mode', 'local')}
    if ['shut'] in c['c_ops']:
        feat['client_half_closes'] = True
    out: List[Any] = []
    short = sum(ks.short for ks in w.ksocks if ks.kname.startswith('client'))
    info = {'short': short, 'pending': r['state']['pending_at_teardown'], 'bytes': len(client.inbuf), 'iters': w.iter}
    try:
        if w.budget_exhausted:
            info['inconclusive'] = True
            return out, info
        if c.get('mode', 'local') == 'local' and w.worker_died:
            out.append(('worker-died', dict(feat, exc=(w.exceptions or [('', 'loop-stopped')])[0][1].split(':')[0]), w.exceptions[:1]))
            return out, info
        got = bytes(client.inbuf)
        # what must have arrived
        if exp.get('raw'):
            want = r['ostream']
            if exp.get('received_only') or ['shut'] in c['c_ops']:
                up = [ks for ks in w.ksocks if ks.kname.startswith('upstream')]
                want = want[:up[0].bytes_in] if up else b''
                info['received_from_upstream'] = len(want)
            if not want.startswith(got):
                out.append(('output-corrupted', feat, got[:80], want[:80]))
            elif client.eof_iter is not None and len(got) < len(want):
                out.append(('eof-before-all-output', feat, {'got': len(got)}, {'want': len(want)}))
            complete = got == want
        else:
            methods = [b'GET'] * len(exp['codes'])
            p = H.parse_responses(got, methods, eof=client.eof_iter is not None)
            complete = p.ok and len(p.messages) == len(exp['codes']) and not p.partial
            if client.eof_iter is not None:
                if not p.ok or p.partial or len(p.messages) < len(exp['codes']):
                    out.append(('eof-before-all-output', feat, {'h11': repr(p), 'bytes': len(got)}, {'responses': exp['codes']}))
                elif len(p.messages) > len(exp['codes']) or p.leftover:
                    out.append(('extra-output', feat, repr(p), exp['codes']))
            if p.ok and not out:
                for i, m in enumerate(p.messages[:len(exp['codes'])]):
                    if m['code'] != exp['codes'][i]:
                        out.append(('wrong-status', dict(feat, got=m['code']), m['code'], exp['codes'][i]))
                    if 'bodies' in exp:
                        body = m['body']
                        if dict((k.lower(), v) for k, v in m['headers']).get(b'content-encoding') == b'gzip':
                            body = gzip.decompress(body)
                        if body != exp['bodies'][i]:
                            out.append(('body-corrupted', feat, {'len': len(body)}, {'len': len(exp['bodies'][i])}))
        # the proxy must close, promptly, once everything is out and the client keeps reading
        if not out:
            if complete and client.eof_iter is None:
                out.append(('no-close-after-output', feat, {'iters': w.iter}, 'EOF'))
            elif not complete and client.eof_iter is None:
                out.append(('output-stalled', feat, {'bytes': len(got), 'iters': w.iter}, 'complete output then EOF'))
            elif complete and client.eof_iter is not None:
                t_last = client.rx_marks[-1][0] if client.rx_marks else 0
                # (a half-closing client: the proxy can only end the exchange once that half-close has happened)
                ref = max(t_last, client.script_done_iter or 0, client.shut_iter or 0)
                origin = w.peers.get('origin')
                if origin is not None and c['source'] in ('origin_close', 'origin_early_close'):
                    # the proxy can only pass on a close it has learnt of (EOF or error on the upstream socket)
                    up = [ks for ks in w.ksocks if ks.kname.startswith('upstream')]
                    ref = max(ref, origin.closed_iter or 0, (up[0].gone_iter or 0) if up else 0)
                # promptness is the proxy's: the iteration at which IT closed the client socket (the client may notice later, when
                # it next gets to move)
                cs = [ks for ks in w.ksocks if ks.kname == 'client:client']
                closed_at = cs[0].close_iter if cs and cs[0].close_iter is not None else client.eof_iter
                lag = min(closed_at, client.eof_iter) - ref
                info['lag'] = lag
                if lag > PROMPT_B:
                    out.append(('close-not-prompt', feat, {'eof_iter': client.eof_iter, 'last_byte_iter': t_last,
                                                           'reading_since': client.script_done_iter}, {'bound': PROMPT_B}))
        return out, info
    finally:
        w.teardown()


def replay(case: Dict[str, Any]) -> List[Dict[str, Any]]:
    vs, _ = evaluate(case)
    return [{'property': ID, 'clause': cl, 'features': ft, 'case': case, 'observed': ob, 'expected': ex} for (cl, ft, ob, ex) in vs]


# -- generation ----------------------------------------------------------------------------------

def read_ops(max_len: int) -> Any:
    op = st.one_of(st.tuples(st.just('read'), SIZES).map(list), st.just(['idle']), st.just(['idle']))
    return st.lists(op, max_size=max_len)


@st.composite
def cases(draw: Any, source: str, mode: str, big: int) -> Dict[str, Any]:
    c: Dict[str, Any] = {'source': source, 'mode': mode}
    c['c_ops'] = draw(read_ops(30))
    if draw(st.integers(0, 3)) == 0:
        # the client half-closes (SHUT_WR) after its request and keeps reading: the proxy ends the exchange, and what it has
        # queued (and, for origin data, received) by then must still arrive before the close
        c['c_ops'].insert(draw(st.integers(0, len(c['c_ops']))), ['shut'])
    cap = st.sampled_from([0, 0, 0, 1, 2, 7, 64, 1460, 65536, None])
    c['caps_client'] = draw(st.one_of(st.none(), st.lists(cap, min_size=1, max_size=8).filter(lambda l: any(x != 0 for x in l))))
    c['sndbuf'] = draw(st.sampled_from([None, 4096, 16384]))
    c['max_sendbuf'] = draw(st.sampled_from([None, None, 1, 7, 64, 4096]))
    c['schedule'] = draw(st.lists(st.integers(0, 2), max_size=80))
    if source in ('static', 'route_close', 'origin_close'):
        n = draw(st.one_of(st.integers(1, 200), st.integers(1, big), st.sampled_from([65535, 65536, 65537, 131072, 131073])))
        n = min(n, big)
        if c['max_sendbuf'] in (1, 7):
            n = min(n, 3000)
        c['size'], c['salt'] = n, draw(st.integers(0, 50))
    if source == 'route_close':
        c['pieces'] = draw(st.sampled_from([1, 1, 2, 3, 17]))
    if source == 'origin_early_close':
        c['req_body'] = draw(st.sampled_from([1000, 70000, 200000, 300000]))
        c['size'], c['salt'] = draw(st.integers(0, 3000)), draw(st.integers(0, 50))
        c['caps_up'] = draw(st.one_of(st.none(), st.lists(st.sampled_from([0, 1, 64, 1460, None]), min_size=1, max_size=5).filter(lambda l: any(x != 0 for x in l))))
        op = st.one_of(st.tuples(st.just('send'), SIZES).map(list), st.just(['idle']))
        c['o_ops'] = draw(st.lists(op, max_size=6))
    if source == 'origin_close':
        op = st.one_of(st.tuples(st.just('send'), SIZES).map(list), st.just(['idle']))
        c['o_ops'] = draw(st.lists(op, max_size=10))
    if source == 'err502':
        c['connect_fault'] = draw(st.sampled_from(['refused', 'timeout', 'gaierror', 'unreachable']))
    if source in ('err400', 'err404'):
        c['variant'] = draw(st.integers(0, 1))
    return c


SOURCES = ['err400', 'err404', 'err407', 'err502', 'static', 'route_close', 'origin_close', 'origin_early_close']


def shards(tier: str) -> List[Dict[str, Any]]:
    q = tier == 'quick'
    out = []
    for mode in ('local', 'threaded'):
        for src in SOURCES:
            heavy = src in ('static', 'route_close', 'origin_close', 'origin_early_close')
            reps = (2 if heavy else 1) if q else (4 if heavy else 2)
            for i in range(reps):
                out.append({'name': '%s-%s-%d' % (mode, src, i), 'source': src, 'mode': mode,
                            'examples': (220 if heavy else 200) if q else (3000 if heavy else 1500),
                            'big': (1 << 18 if q else 1 << 21)})
    if not q:
        for mode in ('local', 'threaded'):
            out.append({'name': '%s-static-huge' % mode, 'source': 'static', 'mode': mode, 'examples': 40, 'big': 8 << 20})
    return out


def run_shard(spec: Dict[str, Any], seed: int, acc: Any) -> None:
    def chk(c: Dict[str, Any]) -> List[Any]:
        vs, info = evaluate(c)
        labs = ['source:' + c['source'], 'mode:' + c['mode']] + (['client-half-closes'] if ['shut'] in c['c_ops'] else [])
        if info.get('inconclusive'):
            acc.dontcare += 1
            labs.append('inconclusive:iteration-budget')
        if info['short']:
            labs.append('client-send-short-or-blocked')
        if info['pending']:
            labs.append('teardown-requested-with-output-pending')
        if 'lag' in info:
            labs.append('eof-lag:%d' % min(info['lag'], 9))
        acc.case(c, bool(info['pending'] and info['short']), labels=labs)
        acc.size('max_output_bytes', info['bytes'])
        return vs
    try:
        hyp.drive(cases(spec['source'], spec['mode'], spec['big']), chk, acc, max_examples=spec['examples'], seed=seed)
    finally:
        cleanup_static()
