"""C19 - the proxy listens where configured, reports its ports truthfully and shuts down cleanly.

Harness L: the real proxy.Proxy(...) context manager (listener pool, acceptor processes, local executor threads or
remote worker processes) is started inside the check process for each generated configuration:
--hostname in {127.0.0.1, ::1}; --hostnames subset of both; --port fixed (pre-probed free) or 0; --ports with 0..3
entries fixed or 0 (0 only with a single listening address); --unix-socket-path on/off; port / pid files on/off;
mode in {threaded, local, remote}; acceptors / workers in {1, 2}.
Ground truth independent of what the proxy reports: the LISTEN sockets of this process from /proc/net/tcp{,6}
matched by inode against /proc/self/fd.
After setup():   every configured endpoint accepts a connection and answers a request; flags.port is the bound
                 primary port (the fixed one when fixed, otherwise a LISTEN port that is not one of the fixed extras);
                 {flags.port} U flags.ports == the set of LISTEN TCP ports; the port file lists the same ports, primary
                 first; the pid file holds our pid.
After shutdown(): every endpoint refuses, no child process is left, the files and the unix socket path are gone.
A deadline hit while waiting for an answer is inconclusive (counted), never a violation.
"""
import os
import time
import socket
import itertools
import tempfile
import multiprocessing
from typing import Any, Dict, List, Optional, Set, Tuple

from hypothesis import strategies as st

from vf.core import hyp

ID = 'C19'
LEVEL = 'exploration'
RULE = ('Hypothesis draws listener configurations from the grid described in the module docstring; each is started for real. '
        'Non-trivial: >= 2 endpoints or an OS-assigned port; distinct by configuration. Samples are configurations.')
ASSUMPTIONS = ['/proc/net/tcp{,6} and /proc/self/fd are the ground truth for listening sockets', 'loopback IPv4 and IPv6 are available',
               'waiting for an answer uses a 15 s deadline (>100x the normal latency); hitting it is inconclusive']


def free_port(host: str, also: Tuple[str, ...] = ()) -> int:
    """A port that is free on `host` and on every address in `also` (the proxy binds each port on every listening address)."""
    for _ in range(50):
        s = socket.socket(socket.AF_INET6 if ':' in host else socket.AF_INET, socket.SOCK_STREAM)
        s.bind((host, 0))
        p = s.getsockname()[1]
        s.close()
        ok = True
        for h in also:
            t = socket.socket(socket.AF_INET6 if ':' in h else socket.AF_INET, socket.SOCK_STREAM)
            try:
                t.bind((h, p))
            except OSError:
                ok = False
            finally:
                t.close()
        if ok:
            return p
    return p


def listen_ports_of_self() -> Set[Tuple[str, int]]:
    inodes = set()
    for fd in os.listdir('/proc/self/fd'):
        try:
            t = os.readlink('/proc/self/fd/' + fd)
        except OSError:
            continue
        if t.startswith('socket:['):
            inodes.add(t[8:-1])
    out = set()
    for fam, path in (('4', '/proc/net/tcp'), ('6', '/proc/net/tcp6')):
        try:
            lines = open(path).read().splitlines()[1:]
        except OSError:
            continue
        for ln in lines:
            f = ln.split()
            if f[3] == '0A' and f[9] in inodes:
                out.add((fam, int(f[1].rsplit(':', 1)[1], 16)))
    return out


def try_request(host: str, port: int, deadline: float) -> str:
    """'answered' | 'refused' | 'timeout'"""
    fam = socket.AF_INET6 if ':' in host else socket.AF_INET
    while True:
        s = socket.socket(fam, socket.SOCK_STREAM)
        s.settimeout(max(0.2, min(3.0, deadline - time.time())))
        try:
            s.connect((host, port))
        except ConnectionRefusedError:
            s.close()
            return 'refused'
        except OSError:
            s.close()
            if time.time() > deadline:
                return 'timeout'
            time.sleep(0.05)
            continue
        try:
            s.sendall(b'GET /probe HTTP/1.1\r\nHost: x\r\n\r\n')
            data = b''
            while time.time() < deadline:
                try:
                    chunk = s.recv(4096)
                except socket.timeout:
                    continue
                if not chunk:
                    break
                data += chunk
                if b'\r\n\r\n' in data:
                    break
            return 'answered' if data.startswith(b'HTTP/1.1 ') else 'timeout'
        except OSError:
            return 'timeout'
        finally:
            s.close()


def try_unix(path: str, deadline: float) -> str:
    s = socket.socket(socket.AF_UNIX, socket.SOCK_STREAM)
    s.settimeout(3.0)
    try:
        s.connect(path)
    except (ConnectionRefusedError, FileNotFoundError):
        s.close()
        return 'refused'
    try:
        s.sendall(b'GET /probe HTTP/1.1\r\nHost: x\r\n\r\n')
        data = b''
        while time.time() < deadline and b'\r\n\r\n' not in data:
            try:
                chunk = s.recv(4096)
            except socket.timeout:
                continue
            if not chunk:
                break
            data += chunk
        return 'answered' if data.startswith(b'HTTP/1.1 ') else 'timeout'
    except OSError:
        return 'timeout'
    finally:
        s.close()


def children_alive() -> List[int]:
    me = os.getpid()
    out = []
    for p in os.listdir('/proc'):
        if not p.isdigit():
            continue
        try:
            st_ = open('/proc/%s/stat' % p).read()
            ppid = int(st_.rsplit(')', 1)[1].split()[1])
            state = st_.rsplit(')', 1)[1].split()[0]
        except (OSError, IndexError, ValueError):
            continue
        if ppid == me and state != 'Z':
            out.append(int(p))
    return out


def evaluate(c: Dict[str, Any]) -> Tuple[List[Any], Dict[str, Any]]:
    # The fixed ports of a case are probed free and then released before the proxy binds them: another process on the machine
    # can take one in between (seen once, under heavy load).  EADDRINUSE on a port this harness chose says nothing about the
    # proxy: the case is re-run with freshly probed ports, and counted as inconclusive if that keeps happening.
    for attempt in range(4):
        out, info = _evaluate_once(c)
        busy = [v for v in out if v[0] == 'setup-raised' and 'Address already in use' in str(v[2])]
        if not busy:
            return out, info
    info['inconclusive'] = True
    return [v for v in out if v not in busy], info


def _evaluate_once(c: Dict[str, Any]) -> Tuple[List[Any], Dict[str, Any]]:
    from proxy import Proxy
    tmp = tempfile.mkdtemp(prefix='vf-c19-')
    hosts = [c['hostname']] + [h for h in c['hostnames'] if h != c['hostname']]
    fixed_primary = None if c['port'] == 0 else free_port(hosts[0], tuple(hosts[1:]))
    extras: List[Optional[int]] = []
    taken = {fixed_primary}
    for e in c['ports']:
        if e == 0:
            extras.append(None)
        else:
            p = free_port(hosts[0], tuple(hosts[1:]))
            while p in taken:
                p = free_port(hosts[0], tuple(hosts[1:]))
            taken.add(p)
            extras.append(p)
    argv = ['--hostname', c['hostname'], '--port', str(fixed_primary or 0), '--num-acceptors', str(c['acceptors']),
            '--num-workers', str(c['workers'])]
    if c['hostnames']:
        argv += ['--hostnames'] + list(c['hostnames'])
    if c['ports']:
        argv += ['--ports'] + [str(e or 0) for e in extras]
    argv += {'threaded': ['--threaded'], 'local': ['--threadless'], 'remote': ['--threadless', '--local-executor', '0']}[c['mode']]
    upath = os.path.join(tmp, 'proxy.sock') if c['unix'] else None
    if upath:
        argv += ['--unix-socket-path', upath]
    port_file = os.path.join(tmp, 'ports.txt') if c['files'] else None
    pid_file = os.path.join(tmp, 'pid.txt') if c['files'] else None
    if port_file:
        argv += ['--port-file', port_file, '--pid-file', pid_file]
    feat = {'mode': c['mode'], 'extras': min(len(c['ports']), 2), 'multi_host': len(hosts) > 1, 'unix': c['unix'],
            'os_assigned': c['port'] == 0 or any(e is None for e in extras)}
    info: Dict[str, Any] = {'endpoints': 0}
    out: List[Any] = []
    before = listen_ports_of_self()
    p = Proxy(argv)
    started = False
    try:
        p.setup()
        started = True
        listening = listen_ports_of_self() - before
        ports_truth = sorted(set(pt for _, pt in listening))
        deadline = time.time() + 15
        # -- reported ports
        rep_primary, rep_extra = p.flags.port, list(p.flags.ports)
        fixed_extras = [e for e in extras if e is not None]
        if not c['unix']:
            if fixed_primary is not None and rep_primary != fixed_primary:
                out.append(('reported-primary-port-is-not-the-configured-one', feat, {'reported': rep_primary, 'extras': rep_extra},
                            {'primary': fixed_primary}))
            elif fixed_primary is None and (rep_primary not in ports_truth or rep_primary in fixed_extras):
                out.append(('reported-primary-port-is-not-the-bound-primary', feat, {'reported': rep_primary, 'listening': ports_truth}, None))
            reported = [rep_primary] + rep_extra
        else:
            reported = rep_extra
        if sorted(reported) != ports_truth or len(set(reported)) != len(reported):
            out.append(('reported-ports-differ-from-listening-ports', feat, {'reported': reported}, {'listening': ports_truth}))
        # -- as many TCP ports listen as were configured (each 0 entry asks for one more OS-assigned port)
        n_configured = (0 if c['unix'] else 1) + len(extras)
        if len(ports_truth) != n_configured:
            out.append(('number-of-listening-ports-differs-from-configuration', dict(feat, zeros=sum(1 for e in extras if e is None)),
                        {'listening': ports_truth}, {'configured_ports': n_configured}))
        # -- every configured endpoint accepts and answers
        want_ports = ([fixed_primary] if (fixed_primary and not c['unix']) else []) + fixed_extras
        endpoints = [(h, pt) for h in hosts for pt in want_ports]
        if not c['unix'] and fixed_primary is None:
            endpoints += [(h, rep_primary) for h in hosts]
        for e, rp in zip(extras, []):
            pass
        if any(e is None for e in extras):
            endpoints += [(hosts[0], pt) for pt in ports_truth if (hosts[0], pt) not in endpoints]
        info['endpoints'] = len(endpoints) + (1 if upath else 0)
        # every endpoint is probed with a request; the unix socket first.  An endpoint that accepts the connection but gives no
        # answer is judged RELATIVELY: it is a violation only if, in this very run, another endpoint of the same instance did
        # answer and this one stays silent through a second attempt with a fresh 30 s allowance (absolute time alone never
        # decides: with nothing to compare with, silence is inconclusive)
        probes: List[Tuple[Any, str]] = []
        if upath:
            probes.append((('unix', upath), try_unix(upath, deadline)))
        for (h, pt) in endpoints:
            probes.append((((h, pt)), try_request(h, pt, max(deadline, time.time() + 5))))
        answered = [e for e, r in probes if r == 'answered']
        for e, r in probes:
            if r == 'refused':
                out.append(('unix-socket-refuses' if e[0] == 'unix' else 'configured-endpoint-refuses', feat,
                            {'endpoint': e, 'listening': sorted(listening)}, 'accepts'))
            elif r == 'timeout':
                r2 = (try_unix(e[1], time.time() + 30) if e[0] == 'unix' else try_request(e[0], e[1], time.time() + 30)) if answered else 'timeout'
                if r2 == 'timeout' and answered:
                    out.append(('endpoint-accepts-but-does-not-serve', dict(feat, endpoint='unix' if e[0] == 'unix' else 'tcp'),
                                {'endpoint': e, 'answered_meanwhile': answered[:3]}, 'a response, like the other endpoints of this instance'))
                elif r2 != 'answered':
                    info['inconclusive'] = True
        # -- files
        if port_file:
            try:
                lines = [int(x) for x in open(port_file).read().split()]
            except (OSError, ValueError) as e:
                lines = None
                out.append(('port-file-unreadable', feat, repr(e), None))
            if lines is not None:
                if sorted(lines) != ports_truth or len(set(lines)) != len(lines):
                    out.append(('port-file-differs-from-listening-ports', feat, {'file': lines}, {'listening': ports_truth}))
                elif not c['unix'] and lines and lines[0] != (fixed_primary or rep_primary):
                    out.append(('port-file-primary-not-first', feat, {'file': lines}, {'primary': fixed_primary or rep_primary}))
            try:
                if int(open(pid_file).read().strip()) != os.getpid():
                    out.append(('pid-file-wrong', feat, open(pid_file).read(), os.getpid()))
            except (OSError, ValueError) as e:
                out.append(('pid-file-unreadable', feat, repr(e), None))
        all_eps = list(endpoints)
    except BaseException as e:
        if not started:
            out.append(('setup-raised', dict(feat, exc=type(e).__name__), repr(e), None))
        else:
            raise
        all_eps = []
    finally:
        try:
            if started:
                p.shutdown()
        except BaseException as e:
            out.append(('shutdown-raised', dict(feat, exc=type(e).__name__), repr(e), None))
    if started:
        for (h, pt) in all_eps:
            if try_request(h, pt, time.time() + 1) != 'refused':
                out.append(('endpoint-still-accepts-after-shutdown', feat, (h, pt), 'refused'))
                break
        t_end = time.time() + 5
        kids = children_alive()
        while kids and time.time() < t_end:
            time.sleep(0.05)
            kids = children_alive()
        if kids or multiprocessing.active_children():
            out.append(('child-process-left-after-shutdown', feat, {'pids': kids, 'mp': [str(x) for x in multiprocessing.active_children()]}, []))
        left = [x for x in (port_file, pid_file, upath) if x and os.path.exists(x)]
        if left:
            out.append(('files-left-after-shutdown', dict(feat, which=[os.path.basename(x) for x in left]), left, []))
        if listen_ports_of_self() - before:
            out.append(('listening-socket-left-after-shutdown', feat, sorted(listen_ports_of_self() - before), []))
    import shutil
    shutil.rmtree(tmp, ignore_errors=True)
    return out, info


def replay(case: Dict[str, Any]) -> List[Dict[str, Any]]:
    multiprocessing.current_process()._config['daemon'] = False     # type: ignore[attr-defined]
    vs, _ = evaluate(case)
    return [{'property': ID, 'clause': cl, 'features': ft, 'case': case, 'observed': ob, 'expected': ex} for (cl, ft, ob, ex) in vs]


@st.composite
def cases(draw: Any) -> Dict[str, Any]:
    hostname = draw(st.sampled_from(['127.0.0.1', '127.0.0.1', '::1']))
    hostnames = draw(st.sampled_from([[], [], ['127.0.0.1'], ['::1'], ['127.0.0.1', '::1']]))
    single = len(set([hostname] + hostnames)) == 1
    port = draw(st.sampled_from([1, 1, 0])) if single else 1
    nextra = draw(st.integers(0, 3))
    ports = [draw(st.sampled_from([1, 1, 0])) if single else 1 for _ in range(nextra)]
    return {'hostname': hostname, 'hostnames': hostnames, 'port': port, 'ports': ports, 'unix': draw(st.sampled_from([False, False, False, True])),
            'files': draw(st.booleans()), 'mode': draw(st.sampled_from(['threaded', 'local', 'remote'])),
            'acceptors': draw(st.sampled_from([1, 2])), 'workers': draw(st.sampled_from([1, 2]))}


def shards(tier: str) -> List[Dict[str, Any]]:
    q = tier == 'quick'
    return [{'name': 'configs-%d' % i, 'examples': 14 if q else 180} for i in range(8)]


def run_shard(spec: Dict[str, Any], seed: int, acc: Any) -> None:
    # the shard runs in a pool worker, which is daemonic; Proxy starts child processes
    multiprocessing.current_process()._config['daemon'] = False     # type: ignore[attr-defined]
    import logging
    logging.disable(logging.CRITICAL)

    def chk(c: Dict[str, Any]) -> List[Any]:
        vs, info = evaluate(c)
        if info.get('inconclusive'):
            acc.dontcare += 1
            acc.label('inconclusive:deadline')
        nt = info['endpoints'] >= 2 or c['port'] == 0 or 0 in c['ports']
        acc.case(c, nt, labels=('mode:' + c['mode'], 'extras:%d' % len(c['ports']), 'unix' if c['unix'] else 'tcp-only',
                                'multi-host' if len(set([c['hostname']] + c['hostnames'])) > 1 else 'single-host'))
        return vs
    hyp.drive(cases(), chk, acc, max_examples=spec['examples'], seed=seed, shrink=False, max_rounds=4)
