"""Generators of well-formed HTTP/1.x messages as plain-data specs plus their rendering.

A message spec is a JSON-able dict that fully determines the bytes (so cases shrink and replay):
  {'kind': 'req'|'resp', 'method','target','version' | 'version','code','reason',
   'headers': [[name, value, style], ...],     # style: how the field line is spelled
   'framing': 'none'|'cl'|'chunked'|'close', 'body': bytes,
   'sizes': [...], 'hex': 'lower'|'upper'|'lz'|'mixed', 'exts': [...], 'last_ext': b'', 'trailers': [...],
   'cl_style': 0|1  (1 = leading zeros), 'te_value': b'chunked'|b'Chunked'...}
`render(spec)` gives the bytes, `head_len(spec)` the length of start line + header block.
"""
from typing import Any, Dict, List, Tuple

from hypothesis import strategies as st

from vf.refs import chunk_ref

CRLF = b'\r\n'
TCHAR = "!#$%&'*+-.^_`|~0123456789abcdefghijklmnopqrstuvwxyzABCDEFGHIJKLMNOPQRSTUVWXYZ"

COMMON_NAMES = ['Accept', 'Accept-Encoding', 'User-Agent', 'Cookie', 'X-Forwarded-For', 'Cache-Control',
                'Content-Type', 'Authorization', 'If-None-Match', 'Referer', 'X-Request-Id', 'Pragma',
                'Accept-Language', 'Origin', 'DNT', 'X-Custom', 'ETag', 'Server', 'Date', 'Set-Cookie', 'Vary']
RESERVED = {'content-length', 'transfer-encoding', 'host', 'connection', 'proxy-connection', 'proxy-authorization',
            'via', 'upgrade', 'expect', 'te', 'trailer', 'content-encoding', 'keep-alive'}


def _recase(draw: Any, name: str) -> str:
    mode = draw(st.integers(0, 3))
    if mode == 0:
        return name
    if mode == 1:
        return name.lower()
    if mode == 2:
        return name.upper()
    bits = draw(st.integers(0, (1 << min(len(name), 16)) - 1))
    return ''.join(ch.upper() if (bits >> (i % 16)) & 1 else ch.lower() for i, ch in enumerate(name))


@st.composite
def header_name(draw: Any) -> bytes:
    if draw(st.integers(0, 3)):
        return _recase(draw, draw(st.sampled_from(COMMON_NAMES))).encode()
    return draw(st.text(alphabet=TCHAR, min_size=1, max_size=12)).encode()


# field-value: visible ASCII with inner single spaces / tabs, no leading or trailing whitespace
_VCHARS = ''.join(chr(c) for c in range(0x21, 0x7f))
field_value = st.one_of(
    st.sampled_from([b'*/*', b'gzip, deflate', b'no-cache', b'a=b; c=d', b'text/html; charset=utf-8', b'1', b'x:y:z',
                     b'Mon, 01 Jan 2024 00:00:00 GMT', b'"abc"', b'']),
    st.lists(st.text(alphabet=_VCHARS, min_size=1, max_size=10), min_size=1, max_size=4).map(lambda ws: ' '.join(ws).encode()),
    # obs-text (RFC 7230 3.2.6: field-vchar = VCHAR / obs-text): UTF-8 and plain latin-1 octets, which are not valid UTF-8
    st.sampled_from(['caf\u00e9'.encode('utf-8'), 'caf\u00e9'.encode('latin-1'), b'na\xefve \xff\xfe', '\u65e5\u672c'.encode('utf-8'), b'\x80']),
)


@st.composite
def header_list(draw: Any, min_size: int = 0, max_size: int = 6, exclude: Any = RESERVED, allow_empty_value: bool = True) -> List[List[Any]]:
    n = draw(st.integers(min_size, max_size))
    out: List[List[Any]] = []
    seen = set()
    for _ in range(n):
        name = draw(header_name())
        if name.lower().decode() in exclude or name.lower() in seen:
            continue
        seen.add(name.lower())
        v = draw(field_value)
        if not allow_empty_value and v == b'':
            v = b'0'
        out.append([name, v, draw(st.integers(0, 3))])
    return out


def field_line(name: bytes, value: bytes, style: int) -> bytes:
    if style == 1:
        return name + b':' + value
    if style == 2:
        return name + b':  ' + value + b' '
    if style == 3:
        return name + b':\t' + value
    return name + b': ' + value


def bodies(max_size: int = 200) -> Any:
    small = st.binary(max_size=min(max_size, 64))
    texty = st.text(alphabet='abcXYZ019 \r\n', max_size=min(max_size, 80)).map(lambda s: s.encode())
    crlfy = st.lists(st.sampled_from([b'\r\n', b'\r', b'\n', b'0\r\n\r\n', b'a', b'\x00', b'5\r\n', b'HTTP/1.1 200 OK\r\n\r\n']),
                     max_size=12).map(b''.join)
    opts = [small, texty, crlfy]
    if max_size > 64:
        opts.append(st.builds(lambda blk, n: (blk * (n // max(1, len(blk)) + 1))[:n],
                              st.binary(min_size=1, max_size=32), st.integers(0, max_size)))
    return st.one_of(*opts).filter(lambda b: len(b) <= max_size)


@st.composite
def chunk_sizes(draw: Any, n: int) -> List[int]:
    """positive sizes summing to n"""
    if n == 0:
        return []
    mode = draw(st.integers(0, 3))
    if mode == 0:
        return [n]
    if mode == 1 and n <= 64:
        return [1] * n
    k = draw(st.integers(1, min(n, 6)))
    if k == 1:
        return [n]
    cuts = sorted(set(draw(st.lists(st.integers(1, n - 1), min_size=k - 1, max_size=k - 1))))
    pts = [0] + cuts + [n]
    return [b - a for a, b in zip(pts, pts[1:]) if b > a]


EXT = st.sampled_from([b'', b'', b'', b';x', b';name=val', b';a=1;b="q"'])
TRAILER = st.sampled_from([b'X-Checksum: abc', b'Expires: never', b'x-t:1'])


@st.composite
def framing(draw: Any, kinds: Tuple[str, ...], max_body: int = 200, plain_chunked: bool = False) -> Dict[str, Any]:
    kind = draw(st.sampled_from(kinds))
    fr: Dict[str, Any] = {'framing': kind, 'body': b''}
    if kind in ('cl', 'chunked', 'close'):
        fr['body'] = draw(bodies(max_body))
    if kind == 'cl':
        fr['cl_style'] = draw(st.sampled_from([0, 0, 0, 1]))
        fr['cl_name'] = _recase(draw, 'Content-Length').encode()
    if kind == 'chunked':
        fr['sizes'] = draw(chunk_sizes(len(fr['body'])))
        fr['hex'] = draw(st.sampled_from(['lower', 'lower', 'upper', 'lz', 'mixed']))
        fr['te_name'] = _recase(draw, 'Transfer-Encoding').encode()
        fr['te_value'] = draw(st.sampled_from([b'chunked', b'chunked', b'Chunked', b'CHUNKED']))
        if plain_chunked:
            fr['exts'], fr['last_ext'], fr['trailers'], fr['last_zeros'] = [], b'', [], 1
        else:
            want_ext = draw(st.integers(0, 5)) == 0
            fr['exts'] = [draw(EXT) for _ in fr['sizes']] if want_ext else []
            fr['last_ext'] = draw(EXT) if want_ext else b''
            fr['trailers'] = draw(st.lists(TRAILER, max_size=2, unique=True)) if draw(st.integers(0, 5)) == 0 else []
            fr['last_zeros'] = draw(st.sampled_from([1, 1, 1, 1, 2]))
    return fr


def framing_headers(spec: Dict[str, Any]) -> List[List[Any]]:
    f = spec['framing']
    if f == 'cl':
        n = len(spec['body'])
        v = ('%03d' % n if spec.get('cl_style') else '%d' % n).encode()
        return [[spec.get('cl_name', b'Content-Length'), v, 0]]
    if f == 'chunked':
        return [[spec.get('te_name', b'Transfer-Encoding'), spec.get('te_value', b'chunked'), 0]]
    return []


def render_body(spec: Dict[str, Any]) -> bytes:
    if spec['framing'] == 'chunked':
        return chunk_ref.encode(spec['body'], spec['sizes'], spec.get('hex', 'lower'), spec.get('exts') or None,
                                spec.get('last_ext', b''), spec.get('trailers') or None, spec.get('last_zeros', 1))
    return spec['body']


def start_line(spec: Dict[str, Any]) -> bytes:
    if spec['kind'] == 'req':
        return spec['method'] + b' ' + spec['target'] + b' ' + spec['version']
    line = spec['version'] + b' ' + spec['code']
    if spec.get('reason') is not None:
        line += b' ' + spec['reason']
    return line


def all_headers(spec: Dict[str, Any]) -> List[List[Any]]:
    """Headers in wire order: framing header is inserted at position spec['fh_pos'] (default: end)."""
    hs = [list(h) for h in spec['headers']]
    fh = framing_headers(spec)
    pos = min(spec.get('fh_pos', len(hs)), len(hs))
    return hs[:pos] + fh + hs[pos:]


def render_head(spec: Dict[str, Any]) -> bytes:
    lines = [start_line(spec)] + [field_line(*h) for h in all_headers(spec)]
    return CRLF.join(lines) + CRLF + CRLF


def render(spec: Dict[str, Any]) -> bytes:
    return render_head(spec) + render_body(spec)


def head_len(spec: Dict[str, Any]) -> int:
    return len(render_head(spec))


METHODS = [b'GET', b'POST', b'PUT', b'DELETE', b'HEAD', b'OPTIONS', b'PATCH', b'PROPFIND', b'M-SEARCH', b'X']
_PCHAR = "abcdefghijklmnopqrstuvwxyzABCXYZ0123456789-._~!$&'()*+,;=:@%"


@st.composite
def path_query(draw: Any) -> bytes:
    segs = draw(st.lists(st.text(alphabet=_PCHAR, max_size=8), max_size=4))
    p = '/' + '/'.join(segs)
    # a target beginning with '//' is documented by proxy.py's Url class as a scheme-less URL (network-path
    # reference), not an origin-form path; keep origin-form targets unambiguous
    while p.startswith('//'):
        p = p[1:]
    if draw(st.integers(0, 2)) == 0:
        p += '?' + draw(st.text(alphabet=_PCHAR + '/?', max_size=12))
    return p.encode()


@st.composite
def request_spec(draw: Any, *, form: str = 'origin', host: bytes = b'example.test', port: Any = None,
                 framings: Tuple[str, ...] = ('none', 'cl', 'chunked'), max_body: int = 200,
                 min_headers: int = 0, max_headers: int = 6, with_host: bool = True, versions: Tuple[bytes, ...] = (b'HTTP/1.1', b'HTTP/1.0'),
                 methods: Any = None, plain_chunked: bool = False) -> Dict[str, Any]:
    method = draw(st.sampled_from(METHODS) if methods is None else methods)
    pq = draw(path_query())
    authority = host + (b':%d' % port if port is not None else b'')
    if form == 'origin':
        target = pq
    elif form == 'absolute':
        target = b'http://' + authority + pq
    else:
        raise ValueError(form)
    fr = draw(framing(framings, max_body, plain_chunked))
    if fr['framing'] == 'cl' and len(fr['body']) == 0:
        fr['framing'] = 'none'
    hs = draw(header_list(min_headers, max_headers))
    if with_host:
        hs.insert(draw(st.integers(0, len(hs))), [_recase(draw, 'Host').encode(), authority, draw(st.integers(0, 1))])
    spec = {'kind': 'req', 'method': method, 'target': target, 'version': draw(st.sampled_from(versions)),
            'headers': hs, 'fh_pos': draw(st.integers(0, len(hs)))}
    spec.update(fr)
    return spec


REASONS = [b'OK', b'Not Found', b'Connection established', b'', None, b'Multi Word Reason Phrase']


@st.composite
def response_spec(draw: Any, *, framings: Tuple[str, ...] = ('cl', 'chunked'), max_body: int = 200,
                  codes: Any = None, max_headers: int = 6, plain_chunked: bool = False, strict_reason: bool = False) -> Dict[str, Any]:
    code = draw(st.sampled_from([200, 200, 201, 206, 301, 400, 404, 500, 503, 299, 599]) if codes is None else codes)
    fr = draw(framing(framings, max_body, plain_chunked))
    hs = draw(header_list(0, max_headers))
    spec = {'kind': 'resp', 'version': draw(st.sampled_from([b'HTTP/1.1', b'HTTP/1.1', b'HTTP/1.0'])),
            'code': b'%d' % code, 'reason': draw(st.sampled_from([r for r in REASONS if r is not None] if strict_reason else REASONS)), 'headers': hs,
            'fh_pos': draw(st.integers(0, len(hs)))}
    spec.update(fr)
    return spec


# -- segmentations ----------------------------------------------------------------------------

def cut(raw: bytes, cuts: List[int]) -> List[bytes]:
    pts = [0] + sorted(set(c for c in cuts if 0 < c < len(raw))) + [len(raw)]
    return [raw[a:b] for a, b in zip(pts, pts[1:])]


def structural_offsets(raw: bytes) -> List[int]:
    """Offsets just before/inside/after every CR and LF, and around ':' and ';' - where carry-over bugs live."""
    out = set()
    for i, ch in enumerate(raw):
        if ch in (13, 10, 58, 59):
            out.update((i, i + 1))
    return sorted(o for o in out if 0 < o < len(raw))


@st.composite
def cut_set(draw: Any, n: int, raw: bytes = b'', max_cuts: int = 8) -> List[int]:
    if n <= 1:
        return []
    mode = draw(st.integers(0, 4))
    if mode == 0:
        return []
    if mode == 1 and n <= 4096:
        return list(range(1, n))
    k = draw(st.integers(1, max_cuts))
    so = structural_offsets(raw) if raw else []
    if so and mode in (2, 3):
        picks = draw(st.lists(st.sampled_from(so), min_size=1, max_size=k))
        extra = draw(st.lists(st.integers(1, n - 1), max_size=2))
        return sorted(set(picks + extra))
    return sorted(set(draw(st.lists(st.integers(1, n - 1), min_size=1, max_size=k))))


# -- structural regions (used to describe where a cut falls, for failure features) ----------------

def regions(spec: Dict[str, Any], tail: bytes = b'') -> List[Tuple[int, int, str]]:
    out: List[Tuple[int, int, str]] = []
    pos = 0

    def add(n: int, label: str) -> None:
        nonlocal pos
        if n > 0:
            out.append((pos, pos + n, label))
            pos += n
    add(len(start_line(spec)) + 2, 'start-line')
    for h in all_headers(spec):
        add(len(field_line(*h)) + 2, 'header')
    add(2, 'blank-line')
    if spec['framing'] == 'chunked':
        for (n, label) in chunk_regions(spec):
            add(n, label)
    else:
        add(len(spec['body']), 'body')
    add(len(tail), 'tail')
    return out


def chunk_regions(spec: Dict[str, Any]) -> List[Tuple[int, str]]:
    out: List[Tuple[int, str]] = []
    exts = spec.get('exts') or []
    for i, s in enumerate(spec['sizes']):
        h = '%x' % s
        if spec.get('hex') == 'lz':
            h = '0' + h
        ext = exts[i] if i < len(exts) else b''
        out.append((len(h) + len(ext) + 2, 'chunk-size-line'))
        out.append((s, 'chunk-data'))
        out.append((2, 'chunk-crlf'))
    out.append((max(1, spec.get('last_zeros', 1)) + len(spec.get('last_ext', b'')) + 2, 'last-chunk-line'))
    for t in spec.get('trailers') or []:
        out.append((len(t) + 2, 'trailer'))
    out.append((2, 'final-crlf'))
    return out


def describe_cuts(raw: bytes, regs: List[Tuple[int, int, str]], cuts: List[int]) -> List[str]:
    def reg(i: int) -> str:
        for (a, b, label) in regs:
            if a <= i < b:
                return label
        return 'beyond'
    out = set()
    for c in cuts:
        if not 0 < c < len(raw):
            continue
        a, b = reg(c - 1), reg(c)
        d = a if a == b else a + '|' + b
        if raw[c - 1] == 13 and raw[c] == 10:
            d += ':CR|LF'
        out.add(d)
    return sorted(out)
