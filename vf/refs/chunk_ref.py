"""Chunked transfer coding, RFC 7230 section 4.1, written from the grammar.

  chunked-body   = *chunk last-chunk trailer-part CRLF
  chunk          = chunk-size [ chunk-ext ] CRLF chunk-data CRLF
  chunk-size     = 1*HEXDIG
  last-chunk     = 1*("0") [ chunk-ext ] CRLF
  chunk-ext      = *( ";" chunk-ext-name [ "=" chunk-ext-val ] )
  trailer-part   = *( header-field CRLF )
"""
from typing import List, Optional, Tuple

CRLF = b'\r\n'
HEX = b'0123456789abcdefABCDEF'


def encode(body: bytes, sizes: List[int], hexstyle: str = 'lower', exts: Optional[List[bytes]] = None,
           last_ext: bytes = b'', trailers: Optional[List[bytes]] = None, last_zeros: int = 1) -> bytes:
    """sizes: positive chunk sizes summing to len(body).  hexstyle: lower|upper|lz (leading zero).
    exts[i]: extension text for chunk i (b'' or b';name=val').  trailers: raw header lines."""
    assert sum(sizes) == len(body) and all(s > 0 for s in sizes)
    out = []
    pos = 0
    for i, s in enumerate(sizes):
        h = ('%x' % s)
        if hexstyle == 'upper':
            h = h.upper()
        elif hexstyle == 'lz':
            h = '0' + h
        elif hexstyle == 'mixed':
            h = ''.join(ch.upper() if (i + j) % 2 else ch for j, ch in enumerate(h))
        ext = exts[i] if exts and i < len(exts) else b''
        out.append(h.encode() + ext + CRLF + body[pos:pos + s] + CRLF)
        pos += s
    out.append(b'0' * max(1, last_zeros) + last_ext + CRLF)
    for t in (trailers or []):
        out.append(t + CRLF)
    out.append(CRLF)
    return b''.join(out)


def decode(raw: bytes) -> Tuple[bool, bytes, int]:
    """Returns (complete, body decoded so far, bytes consumed when complete else bytes examined).
    Raises ValueError on input that is not a valid chunked stream prefix."""
    pos = 0
    body = b''
    n = len(raw)
    while True:
        eol = raw.find(CRLF, pos)
        if eol < 0:
            _check_partial_size_line(raw[pos:])
            return False, body, n
        line = raw[pos:eol]
        size = _parse_size_line(line)
        pos = eol + 2
        if size == 0:
            # trailer-part then CRLF
            while True:
                eol = raw.find(CRLF, pos)
                if eol < 0:
                    return False, body, n
                tl = raw[pos:eol]
                pos = eol + 2
                if tl == b'':
                    return True, body, pos
                if b':' not in tl:
                    raise ValueError('bad trailer line %r' % tl)
        if n - pos < size:
            body += raw[pos:]
            return False, body, n
        body += raw[pos:pos + size]
        pos += size
        if n - pos < 2:
            if raw[pos:] not in (b'', b'\r'):
                raise ValueError('chunk data not followed by CRLF')
            return False, body, n
        if raw[pos:pos + 2] != CRLF:
            raise ValueError('chunk data not followed by CRLF')
        pos += 2


def _parse_size_line(line: bytes) -> int:
    semi = line.find(b';')
    digits = line if semi < 0 else line[:semi]
    digits = digits.rstrip(b' \t')   # BWS before ";" is tolerated by RFC 7230 errata; we never generate it
    if not digits or any(c not in HEX for c in digits):
        raise ValueError('bad chunk size %r' % line)
    return int(digits, 16)


def _check_partial_size_line(part: bytes) -> None:
    semi = part.find(b';')
    digits = part if semi < 0 else part[:semi]
    digits = digits.rstrip(b'\r')
    if any(c not in HEX + b' \t' for c in digits):
        raise ValueError('bad partial chunk size %r' % part)


def selftest() -> None:
    s = b'4\r\nWiki\r\n5\r\npedia\r\nE\r\n in\r\n\r\nchunks.\r\n0\r\n\r\n'
    assert decode(s) == (True, b'Wikipedia in\r\n\r\nchunks.', len(s))
    assert decode(s + b'XYZ') == (True, b'Wikipedia in\r\n\r\nchunks.', len(s))
    assert decode(s[:-1])[0] is False
    assert decode(b'0\r\n\r\n') == (True, b'', 5)
    e = encode(b'hello world', [5, 6], 'upper', [b';a=b', b''], b';last', [b'X-T: 1'])
    assert e == b'5;a=b\r\nhello\r\n6\r\n world\r\n0;last\r\nX-T: 1\r\n\r\n', e
    assert decode(e) == (True, b'hello world', len(e))
    assert decode(encode(b'x' * 300, [255, 45], 'lz'))[:2] == (True, b'x' * 300)
    for i in range(len(e)):
        c, b, _ = decode(e[:i])
        assert c is False and b'hello world'.startswith(b)
