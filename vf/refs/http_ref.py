"""Independent HTTP/1.1 oracles: h11 in the role opposite to the proxy, and a small raw splitter.

h11 normalises header names (lower-case) and strips value whitespace, so name spelling is checked with
`split_head` on bytes that h11 already accepted.
"""
import gzip
from typing import Any, Dict, List, Optional, Tuple

import h11

CRLF = b'\r\n'


class Parsed:
    def __init__(self) -> None:
        self.ok = True
        self.error: Optional[str] = None
        self.messages: List[Dict[str, Any]] = []   # complete messages
        self.partial: Optional[Dict[str, Any]] = None   # started but not complete
        self.leftover = b''     # bytes after the last complete message that did not start a message (h11 trailing data)
        self.eof_clean = True

    def __repr__(self) -> str:
        return 'Parsed(ok=%s err=%s n=%d partial=%s leftover=%r)' % (self.ok, self.error, len(self.messages), self.partial is not None, self.leftover[:40])


def _hdrs(ev: Any) -> List[Tuple[bytes, bytes]]:
    return [(bytes(k), bytes(v)) for k, v in ev.headers.raw_items()] if hasattr(ev.headers, 'raw_items') else [(bytes(k), bytes(v)) for k, v in ev.headers]


def parse_requests(raw: bytes, eof: bool = False) -> Parsed:
    """What an origin (h11 SERVER role) makes of the bytes: a sequence of requests."""
    out = Parsed()
    conn = h11.Connection(h11.SERVER, max_incomplete_event_size=1 << 22)
    conn.receive_data(raw)
    if eof:
        conn.receive_data(b'')
    cur: Optional[Dict[str, Any]] = None
    try:
        while True:
            ev = conn.next_event()
            if ev is h11.NEED_DATA:
                break
            if ev is h11.PAUSED:
                # one request done; start the next cycle as a server that has answered
                conn.send(h11.Response(status_code=200, headers=[('Content-Length', '0')]))
                conn.send(h11.EndOfMessage())
                try:
                    conn.start_next_cycle()
                except h11.ProtocolError:
                    # connection cannot be reused (HTTP/1.0 or Connection: close): rest is leftover
                    out.leftover = bytes(conn.trailing_data[0])
                    break
                continue
            if isinstance(ev, h11.Request):
                cur = {'method': bytes(ev.method), 'target': bytes(ev.target), 'version': b'HTTP/' + bytes(ev.http_version),
                       'headers': _hdrs(ev), 'body': b''}
            elif isinstance(ev, h11.Data):
                assert cur is not None
                cur['body'] += bytes(ev.data)
            elif isinstance(ev, h11.EndOfMessage):
                assert cur is not None
                cur['trailers'] = _hdrs(ev)
                out.messages.append(cur)
                cur = None
                if conn.our_state is h11.SEND_RESPONSE:
                    conn.send(h11.Response(status_code=200, headers=[('Content-Length', '0')]))
                    conn.send(h11.EndOfMessage())
                if conn.their_state is h11.MUST_CLOSE or conn.our_state is h11.MUST_CLOSE:
                    out.leftover = bytes(conn.trailing_data[0])
                    break
                try:
                    conn.start_next_cycle()
                except h11.ProtocolError:
                    out.leftover = bytes(conn.trailing_data[0])
                    break
            elif isinstance(ev, h11.ConnectionClosed):
                break
    except h11.RemoteProtocolError as e:
        out.ok = False
        out.error = str(e)
    out.partial = cur
    if out.ok and cur is None and not out.leftover:
        td = bytes(conn.trailing_data[0])
        # bytes that have not yet formed a request line/headers
        if td and conn.their_state in (h11.IDLE,):
            out.partial = {'incomplete_head': td}
    return out


def parse_responses(raw: bytes, methods: Optional[List[bytes]] = None, eof: bool = False) -> Parsed:
    """What a client (h11 CLIENT role) makes of the bytes, having sent requests with the given methods.
    Interim 1xx responses are recorded inside the final response's 'interim' list."""
    out = Parsed()
    methods = list(methods or [b'GET'])
    conn = h11.Connection(h11.CLIENT, max_incomplete_event_size=1 << 22)

    def send_req() -> bool:
        if not methods:
            return False
        m = methods.pop(0)
        conn.send(h11.Request(method=m, target=b'/' if m != b'CONNECT' else b'h:1', headers=[('Host', 'h')]))
        conn.send(h11.EndOfMessage())
        return True
    send_req()
    if raw == b'':
        return out      # nothing received (with or without EOF): zero responses, nothing malformed
    conn.receive_data(raw)
    cur: Optional[Dict[str, Any]] = None
    interim: List[Dict[str, Any]] = []
    eof_fed = False
    try:
        while True:
            ev = conn.next_event()
            if ev is h11.NEED_DATA and eof and not eof_fed and (cur is not None or bytes(conn.trailing_data[0])):
                # EOF matters only inside a message (close-delimited body / truncation); between messages it is clean
                eof_fed = True
                conn.receive_data(b'')
                continue
            if ev is h11.NEED_DATA or ev is h11.PAUSED:
                break
            if isinstance(ev, h11.InformationalResponse):
                interim.append({'code': ev.status_code, 'headers': _hdrs(ev)})
            elif isinstance(ev, h11.Response):
                cur = {'code': ev.status_code, 'reason': bytes(ev.reason), 'version': b'HTTP/' + bytes(ev.http_version),
                       'headers': _hdrs(ev), 'body': b'', 'interim': interim}
                interim = []
            elif isinstance(ev, h11.Data):
                assert cur is not None
                cur['body'] += bytes(ev.data)
            elif isinstance(ev, h11.EndOfMessage):
                assert cur is not None
                out.messages.append(cur)
                cur = None
                if conn.their_state is h11.MUST_CLOSE or conn.our_state is h11.MUST_CLOSE or \
                        conn.their_state is h11.SWITCHED_PROTOCOL or conn.our_state is h11.SWITCHED_PROTOCOL:
                    out.leftover = bytes(conn.trailing_data[0])
                    break
                try:
                    conn.start_next_cycle()
                except h11.ProtocolError:
                    out.leftover = bytes(conn.trailing_data[0])
                    break
                if not send_req():
                    out.leftover = bytes(conn.trailing_data[0])
                    break
            elif isinstance(ev, h11.ConnectionClosed):
                break
    except h11.RemoteProtocolError as e:
        out.ok = False
        out.error = str(e)
    if out.ok and cur is not None and conn.their_state is h11.SWITCHED_PROTOCOL:
        # 2xx to CONNECT (or 101): the response head is the whole message, the rest is the tunnel
        out.messages.append(cur)
        cur = None
        out.leftover = bytes(conn.trailing_data[0])
    out.partial = cur
    if out.ok and cur is None and not out.leftover:
        td = bytes(conn.trailing_data[0])
        if td:
            out.partial = {'incomplete_head': td}
    return out


def split_head(raw: bytes) -> Tuple[bytes, List[Tuple[bytes, bytes]], bytes]:
    """For bytes known to start with a valid message head: (start line, [(raw name, OWS-trimmed value)], rest)."""
    end = raw.index(b'\r\n\r\n')
    lines = raw[:end].split(CRLF)
    hs = []
    for ln in lines[1:]:
        name, _, value = ln.partition(b':')
        hs.append((name, value.strip(b' \t')))
    return lines[0], hs, raw[end + 4:]


def split_messages_by_h11(raw: bytes, kind: str, methods: Optional[List[bytes]] = None) -> List[bytes]:
    """Cuts a byte stream of complete messages into per-message byte strings, using a framing-aware scan."""
    out = []
    pos = 0
    while pos < len(raw):
        n = message_length(raw[pos:])
        if n is None:
            break
        out.append(raw[pos:pos + n])
        pos += n
    return out


def message_length(raw: bytes) -> Optional[int]:
    """Length of the first self-delimited message in raw (Content-Length / chunked / no body), None if incomplete."""
    from vf.refs import chunk_ref
    i = raw.find(b'\r\n\r\n')
    if i < 0:
        return None
    _, hs, _ = split_head(raw)
    hd = {k.lower(): v for k, v in hs}
    body_at = i + 4
    if hd.get(b'transfer-encoding', b'').lower() == b'chunked':
        done, _, used = chunk_ref.decode(raw[body_at:])
        return body_at + used if done else None
    if b'content-length' in hd:
        v = hd[b'content-length'].strip()
        if not v.isdigit():      # Content-Length = 1*DIGIT; int() would also take a sign or underscores
            raise ValueError('invalid Content-Length %r' % v)
        n = int(v)
        return body_at + n if len(raw) >= body_at + n else None
    return body_at


def gunzip(b: bytes) -> bytes:
    return gzip.decompress(b)
