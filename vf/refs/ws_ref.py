"""RFC 6455 section 5.2 frame codec and section 4.2.2 accept token, written from the RFC text.

 0                   1                   2                   3
 0 1 2 3 4 5 6 7 8 9 0 1 2 3 4 5 6 7 8 9 0 1 2 3 4 5 6 7 8 9 0 1
+-+-+-+-+-------+-+-------------+-------------------------------+
|F|R|R|R| opcode|M| Payload len |    Extended payload length    |
|I|S|S|S|  (4)  |A|     (7)     |             (16/64)           |
|N|V|V|V|       |S|             |   (if payload len==126/127)   |
| |1|2|3|       |K|             |                               |
"""
import base64
import hashlib
from typing import Optional, Tuple, Dict, Any

GUID = b'258EAFA5-E914-47DA-95CA-C5AB0DC85B11'


def mask_bytes(data: bytes, key: bytes) -> bytes:
    if not data:
        return b''
    n = len(data)
    k = (key * (n // 4 + 1))[:n]
    return (int.from_bytes(data, 'big') ^ int.from_bytes(k, 'big')).to_bytes(n, 'big')


def encode(fin: bool, rsv1: bool, rsv2: bool, rsv3: bool, opcode: int, key: Optional[bytes],
           payload: bytes) -> bytes:
    b0 = (0x80 if fin else 0) | (0x40 if rsv1 else 0) | (0x20 if rsv2 else 0) | (0x10 if rsv3 else 0) | (opcode & 0xF)
    n = len(payload)
    m = 0x80 if key is not None else 0
    if n <= 125:
        head = bytes([b0, m | n])
    elif n <= 0xFFFF:
        head = bytes([b0, m | 126]) + n.to_bytes(2, 'big')
    else:
        head = bytes([b0, m | 127]) + n.to_bytes(8, 'big')
    if key is not None:
        return head + key + mask_bytes(payload, key)
    return head + payload


def decode(raw: bytes) -> Optional[Tuple[Dict[str, Any], bytes]]:
    """Returns (fields, rest) for one complete frame at the start of raw, None if incomplete."""
    if len(raw) < 2:
        return None
    b0, b1 = raw[0], raw[1]
    cur = 2
    n = b1 & 0x7F
    if n == 126:
        if len(raw) < cur + 2:
            return None
        n = int.from_bytes(raw[cur:cur + 2], 'big')
        cur += 2
    elif n == 127:
        if len(raw) < cur + 8:
            return None
        n = int.from_bytes(raw[cur:cur + 8], 'big')
        cur += 8
    key = None
    if b1 & 0x80:
        if len(raw) < cur + 4:
            return None
        key = raw[cur:cur + 4]
        cur += 4
    if len(raw) < cur + n:
        return None
    data = raw[cur:cur + n]
    if key is not None:
        data = mask_bytes(data, key)
    return ({'fin': bool(b0 & 0x80), 'rsv1': bool(b0 & 0x40), 'rsv2': bool(b0 & 0x20), 'rsv3': bool(b0 & 0x10),
             'opcode': b0 & 0xF, 'masked': key is not None, 'mask': key, 'payload': data}, raw[cur + n:])


def accept(key: bytes) -> bytes:
    return base64.b64encode(hashlib.sha1(key + GUID).digest())


def selftest() -> None:
    # RFC 6455 section 5.7 examples
    assert encode(True, False, False, False, 1, None, b'Hello') == bytes.fromhex('810548656c6c6f')
    assert encode(True, False, False, False, 1, bytes.fromhex('37fa213d'), b'Hello') == bytes.fromhex('818537fa213d7f9f4d5158')
    assert encode(True, False, False, False, 2, None, b'\0' * 256)[:4] == bytes.fromhex('827E0100')
    assert encode(True, False, False, False, 2, None, b'\0' * 65536)[:10] == bytes.fromhex('827F0000000000010000')
    assert accept(b'dGhlIHNhbXBsZSBub25jZQ==') == b's3pPLMBiTxaQ9kYGzzhZRbK+xOo='
    f, rest = decode(bytes.fromhex('818537fa213d7f9f4d5158') + b'xyz')  # type: ignore
    assert f['payload'] == b'Hello' and rest == b'xyz'
