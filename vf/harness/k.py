"""Harness K: the real executor loop on real kernel sockets with a harness-owned schedule.

What is real: LocalFdExecutor.run() (-> _run_forever -> _run_once -> selectors/epoll -> tasks -> _cleanup),
HttpProtocolHandler, every protocol plugin, the parser, TcpConnection buffering.
What the harness owns: what each peer does between two loop iterations (the injected work_queue's get()
is the per-iteration hook), how many bytes each proxy-side send() accepts, which call fails with which
errno, what an upstream connect does, and (optionally) the clock.

A run is a pure function of (flags, peers, schedule, fault plans): single thread, synchronous local sockets.
"""
import os
import time
import errno
import ipaddress
import queue
import socket
import struct
import logging
import collections
from typing import Any, Callable, Dict, List, Optional, Tuple

_PATCHED = False
CURRENT: Optional['World'] = None


class HarnessSeamMissing(Exception):
    pass


_ORIG: Dict[str, Any] = {}


class unpatched:
    """Context manager for live tiers that start REAL proxy processes from a process in which harness K is installed:
    the process-wide rebindings are undone for the duration (child processes are forked with the real functions)."""

    def __enter__(self) -> None:
        if not _PATCHED:
            return
        import proxy.core.connection.server as srv
        import proxy.core.work.threadless as tl
        import proxy.http.handler as hh
        self.saved = (srv.new_socket_connection, tl.DEFAULT_SELECTOR_SELECT_TIMEOUT, hh.DEFAULT_SELECTOR_SELECT_TIMEOUT, hh.time)
        srv.new_socket_connection = _ORIG['connect']
        tl.DEFAULT_SELECTOR_SELECT_TIMEOUT = _ORIG['tl_timeout']
        hh.DEFAULT_SELECTOR_SELECT_TIMEOUT = _ORIG['hh_timeout']
        hh.time = _ORIG['hh_time']

    def __exit__(self, *a: Any) -> None:
        if not _PATCHED:
            return
        import proxy.core.connection.server as srv
        import proxy.core.work.threadless as tl
        import proxy.http.handler as hh
        srv.new_socket_connection, tl.DEFAULT_SELECTOR_SELECT_TIMEOUT, hh.DEFAULT_SELECTOR_SELECT_TIMEOUT, hh.time = self.saved


class VClock:
    """Stands in for the `time` module inside proxy.http.handler: time() is real time plus a harness-owned offset
    (or a fully virtual value once `set` is used)."""

    def __init__(self) -> None:
        self.offset = 0.0
        self.virtual: Optional[float] = None
        self.frozen: Optional[float] = None

    def time(self) -> float:
        if self.virtual is not None:
            return self.virtual
        if self.frozen is not None:
            # While a harness-K world exists, time stands still unless the check moves it (offset / virtual): how long a case
            # takes on a loaded machine must never decide whether the proxy's idle reaper (default 10 s) fires during it.
            return self.frozen + self.offset
        return time.time() + self.offset

    def reset(self) -> None:
        self.offset = 0.0
        self.virtual = None
        self.frozen = None

    def __getattr__(self, name: str) -> Any:
        return getattr(time, name)


CLOCK = VClock()


def install() -> None:
    """Process-wide rebindings (check process only).  Exits 2 upstream if a seam vanished."""
    global _PATCHED
    if _PATCHED:
        return
    import proxy.core.connection.server as srv
    import proxy.core.work.threadless as tl
    import proxy.http.handler as hh
    for mod, name in ((srv, 'new_socket_connection'), (tl, 'DEFAULT_SELECTOR_SELECT_TIMEOUT'),
                      (hh, 'DEFAULT_SELECTOR_SELECT_TIMEOUT'), (hh, 'time')):
        if not hasattr(mod, name):
            raise HarnessSeamMissing('%s.%s' % (mod.__name__, name))

    _ORIG.update(connect=srv.new_socket_connection, tl_timeout=tl.DEFAULT_SELECTOR_SELECT_TIMEOUT,
                 hh_timeout=hh.DEFAULT_SELECTOR_SELECT_TIMEOUT, hh_time=hh.time)

    def _connect(addr: Any, timeout: float = 10.0, source_address: Any = None) -> socket.socket:
        if CURRENT is None:
            raise ConnectionRefusedError(errno.ECONNREFUSED, 'no harness world')
        return CURRENT.on_connect(addr, source_address)
    srv.new_socket_connection = _connect
    tl.DEFAULT_SELECTOR_SELECT_TIMEOUT = 0
    hh.DEFAULT_SELECTOR_SELECT_TIMEOUT = 0
    hh.time = CLOCK
    # gzip stamps the current second into its header: freeze it so that a run is a pure function of the case
    import gzip

    class _FrozenTime:
        def time(self) -> float:
            return 1_700_000_000.0

        def __getattr__(self, name: str) -> Any:
            return getattr(time, name)
    gzip.time = _FrozenTime()     # type: ignore[attr-defined]
    logging.disable(logging.CRITICAL)
    import warnings
    warnings.filterwarnings('ignore', category=RuntimeWarning, message='coroutine .* was never awaited')
    _PATCHED = True


# ---------------------------------------------------------------------------------------------
# interposed socket

FATAL = {'ECONNRESET': errno.ECONNRESET, 'EPIPE': errno.EPIPE, 'ETIMEDOUT': errno.ETIMEDOUT,
         'EHOSTUNREACH': errno.EHOSTUNREACH, 'ECONNABORTED': errno.ECONNABORTED, 'ENOBUFS': errno.ENOBUFS,
         'ENOTCONN': errno.ENOTCONN}


def fake_peername(addr: Any, family: Any = None) -> Tuple[Any, ...]:
    """(ip, port[, flowinfo, scope]) a connected TCP socket would report: literals as they are, names 'resolved' to a
    deterministic documentation-range address."""
    host, port = str(addr[0]).strip('[]'), int(addr[1])
    try:
        ip = ipaddress.ip_address(host)
        return (host, port) if ip.version == 4 else (host, port, 0, 0)
    except ValueError:
        n = sum(host.encode('utf-8', 'replace')) % 250 + 1
        return ('198.51.100.%d' % n, port)


class KStats:
    """What the harness remembers about one proxy-side socket (the socket object itself is only weakly referenced)."""

    def __init__(self, kname: str) -> None:
        self.kname = kname
        self.n: collections.Counter = collections.Counter()
        self.bytes_out = 0
        self.bytes_in = 0
        self.short = 0
        self.blocked = 0
        self.fired: List[Tuple[str, int, str]] = []
        self.explicit_close = False
        self.close_iter: Optional[int] = None     # iteration at which the proxy closed this socket
        self.gone_iter: Optional[int] = None      # iteration at which the proxy learnt (EOF / error) that the peer is gone


def _stat_property(name: str) -> Any:
    return property(lambda self: getattr(self.st, name), lambda self, v: setattr(self.st, name, v))


class KSock(socket.socket):
    """Adopts one end of a real pair.  Only restricts what a kernel may legitimately do (accept fewer bytes,
    report would-block) or raises errnos documented for the call (then kills the socket)."""

    def __init__(self, raw: socket.socket, world: 'World', name: str, plan: Optional[Dict[str, Any]] = None) -> None:
        super().__init__(fileno=raw.detach())
        super().setblocking(False)
        self.world = world
        self.kname = name
        self.plan = plan or {}
        self.caps: List[Optional[int]] = list(self.plan.get('caps') or [])
        self.faults: Dict[Tuple[str, int], str] = {(k[0], int(k[1])): v for k, v in (self.plan.get('faults') or {}).items()} \
            if not isinstance(self.plan.get('faults'), list) else {(f[0], int(f[1])): f[2] for f in self.plan['faults']}
        self.mode = 'blocking'
        # The harness must never keep a proxy-side socket alive: a socket the proxy drops without closing is finalised
        # by reference counting, its descriptor NUMBER is reused by the next socket, and what the executor then does with
        # its registrations is part of the behaviour under test.  The world therefore holds the statistics object and a
        # weak reference only.
        import weakref
        self.st = KStats(name)
        world.ksocks.append(self.st)
        world.ksock_refs.append((name, weakref.ref(self)))

    n = _stat_property('n')
    bytes_out = _stat_property('bytes_out')
    bytes_in = _stat_property('bytes_in')
    short = _stat_property('short')
    blocked = _stat_property('blocked')
    fired = _stat_property('fired')
    explicit_close = _stat_property('explicit_close')
    gone_iter = _stat_property('gone_iter')

    # -- mode emulation: the fd stays non-blocking, the mode the proxy asked for is remembered
    def setblocking(self, flag: bool) -> None:
        self.mode = 'blocking' if flag else 'nonblocking'

    def settimeout(self, value: Optional[float]) -> None:
        self.mode = 'blocking' if value is None else ('nonblocking' if value == 0 else 'timeout')

    def gettimeout(self) -> Optional[float]:
        return None if self.mode == 'blocking' else (0.0 if self.mode == 'nonblocking' else 10.0)

    def _wouldblock(self) -> None:
        self.blocked += 1
        if self.mode == 'nonblocking':
            raise BlockingIOError(errno.EAGAIN, 'Resource temporarily unavailable')
        raise socket.timeout('timed out')     # TimeoutError: what a 10 s block would end in

    def _fault(self, op: str) -> None:
        k = self.n[op]
        self.n[op] += 1
        self.world.calls += 1
        f = self.faults.get((op, k))
        if f is None:
            f = self.world.global_fault(self, op)
        if f is None:
            return
        self.fired.append((op, k, f))
        self.world.faults_fired.append((self.kname, op, k, f))
        if f == 'EAGAIN':
            self._wouldblock()
        code = FATAL[f]
        try:
            super().shutdown(socket.SHUT_RDWR)
        except OSError:
            pass
        raise OSError(code, os.strerror(code))

    def send(self, data: Any, flags: int = 0) -> int:     # type: ignore[override]
        k = self.n['send']
        self._fault('send')
        cap = self.caps[k % len(self.caps)] if self.caps else None
        if cap == 0 and self.mode != 'nonblocking':
            # a socket in blocking / timeout mode does not report would-block: send() waits until the kernel takes something.
            # "The kernel takes nothing right now" therefore means "it took the minimum after a wait" (a really full buffer is
            # still met below, and ends in the timeout the proxy asked for)
            cap = 1
        if cap == 0:
            self.short += 1
            self._wouldblock()
        view = memoryview(data)
        if cap is not None and cap < len(view):
            view = view[:cap]
        try:
            n = super().send(view, flags)
        except BlockingIOError:
            self.short += 1
            if self.mode != 'nonblocking':
                # the kernel buffer really is full and the proxy asked for a blocking send: the (single) worker thread
                # would sit in this call for the socket timeout, and with it every connection it serves
                self.world.stalls.append({'sock': self.kname, 'op': 'send', 'iter': self.world.iter, 'mode': self.mode})
            self._wouldblock()
            raise
        except OSError:
            if self.gone_iter is None:
                self.gone_iter = self.world.iter
            raise
        if n < len(data):
            self.short += 1
        if n:
            self.bytes_out += n
            self.world.activity += 1
        return n

    def recv(self, bufsize: int, flags: int = 0) -> bytes:     # type: ignore[override]
        self._fault('recv')
        try:
            b = super().recv(bufsize, flags)
        except BlockingIOError:
            if self.mode != 'nonblocking':
                self.world.stalls.append({'sock': self.kname, 'op': 'recv', 'iter': self.world.iter, 'mode': self.mode})
            self._wouldblock()
            raise
        except OSError:
            if self.gone_iter is None:
                self.gone_iter = self.world.iter
            raise
        if b == b'' and self.gone_iter is None:
            self.gone_iter = self.world.iter
        self.bytes_in += len(b)
        self.world.activity += 1
        return b

    inet_peer: Optional[Tuple[Any, ...]] = None

    def getpeername(self) -> Any:     # type: ignore[override]
        # the pair is AF_UNIX; code under test that asks for the peer of an upstream connection gets an internet address
        if self.inet_peer is not None:
            return self.inet_peer
        return super().getpeername()

    def shutdown(self, how: int) -> None:
        # shutdown() on a connection the peer has reset fails with ENOTCONN on a real stack: a faultable call like the others
        k = self.n['shutdown']
        f = self.faults.get(('shutdown', k))
        if f == 'EAGAIN':
            self.faults[('shutdown', k)] = 'ENOTCONN'
        try:
            self._fault('shutdown')
        except (BlockingIOError, socket.timeout):
            raise OSError(errno.ENOTCONN, os.strerror(errno.ENOTCONN))
        self.world.activity += 1
        super().shutdown(how)

    def close(self) -> None:
        if self.fileno() != -1:
            self.explicit_close = True
            self.st.close_iter = self.world.iter
            self.world.explicitly_closed.add(self.kname)
            self.world.activity += 1
        self.n['close'] += 1
        super().close()


# ---------------------------------------------------------------------------------------------
# peers (the other ends, owned by the harness)

class Peer:
    """A byte-scripted peer.  script: list of ops
        ['send', n] ['read', n] ['idle'] ['shut'] ['close'] ['reset'] ['wait_eof']
    After the script: drain mode = send what is left of `out`, read everything, apply `finish`."""

    def __init__(self, name: str, out: bytes = b'', script: Optional[List[List[Any]]] = None,
                 finish: Optional[str] = None, read_in_drain: bool = True) -> None:
        self.name = name
        self.out = bytearray(out)
        self.sent = 0
        self.script = [list(op) for op in (script or [])]
        self.pc = 0
        self.partial = 0
        self.finish = finish          # None | 'close' | 'shut' | 'close_on_eof' | 'close_after_rx'
        self.expect_rx = 0            # for close_after_rx: close once everything is sent and this many bytes arrived
        self.read_in_drain = read_in_drain
        self.sock: Optional[socket.socket] = None
        self.inbuf = bytearray()
        self.eof_iter: Optional[int] = None
        self.reset_seen = False
        self.err: Optional[str] = None
        self.closed = False
        self.closed_iter: Optional[int] = None
        self.shut = False
        self.shut_iter: Optional[int] = None
        self.world: Optional['World'] = None
        self.opened_iter: Optional[int] = None
        self.last_rx_iter: Optional[int] = None
        self.rx_marks: List[Tuple[int, int]] = []      # (iteration, total bytes received) when it grew

    # -- primitives
    def attach(self, world: 'World', sock: socket.socket) -> None:
        self.world = world
        self.sock = sock
        sock.setblocking(False)
        self.opened_iter = world.iter

    def _send_some(self, limit: Optional[int]) -> int:
        if self.closed or self.shut or self.sock is None:
            return 0
        end = len(self.out) if limit is None else min(len(self.out), self.sent + limit)
        if end <= self.sent:
            return 0
        try:
            n = self.sock.send(bytes(self.out[self.sent:end]))
        except BlockingIOError:
            return 0
        except OSError as e:
            self.err = errno.errorcode.get(e.errno, str(e))
            if e.errno in (errno.ECONNRESET, errno.EPIPE):
                self.reset_seen = self.reset_seen or e.errno == errno.ECONNRESET
            return 0
        self.sent += n
        if n:
            self.world.activity += 1     # type: ignore[union-attr]
        return n

    def _read_some(self, limit: int) -> int:
        if self.closed or self.sock is None or self.eof_iter is not None:
            return 0
        try:
            b = self.sock.recv(limit)
        except BlockingIOError:
            return 0
        except OSError as e:
            self.err = errno.errorcode.get(e.errno, str(e))
            if e.errno == errno.ECONNRESET:
                self.reset_seen = True
            self.eof_iter = self.world.iter     # type: ignore[union-attr]
            self.world.activity += 1            # type: ignore[union-attr]
            return 0
        if b == b'':
            self.eof_iter = self.world.iter     # type: ignore[union-attr]
            self.world.activity += 1            # type: ignore[union-attr]
            self.on_eof()
            return 0
        self.inbuf += b
        self.last_rx_iter = self.world.iter     # type: ignore[union-attr]
        self.rx_marks.append((self.world.iter, len(self.inbuf)))     # type: ignore[union-attr]
        self.world.activity += 1                # type: ignore[union-attr]
        self.on_data()
        return len(b)

    def do_close(self) -> None:
        if not self.closed and self.sock is not None:
            self.closed = True
            self.closed_iter = self.world.iter if self.world is not None else None
            self.sock.close()
            self.world.activity += 1     # type: ignore[union-attr]

    def do_shut(self) -> None:
        if not self.closed and not self.shut and self.sock is not None:
            self.shut = True
            self.shut_iter = self.world.iter if self.world else None
            try:
                self.sock.shutdown(socket.SHUT_WR)
            except OSError:
                pass
            self.world.activity += 1     # type: ignore[union-attr]

    def do_reset(self) -> None:
        if not self.closed and self.sock is not None:
            try:
                self.sock.setsockopt(socket.SOL_SOCKET, socket.SO_LINGER, struct.pack('ii', 1, 0))
            except OSError:
                pass
            self.do_close()

    # -- hooks for reactive subclasses
    def on_data(self) -> None:
        pass

    def on_eof(self) -> None:
        pass

    # -- scheduling interface
    @property
    def script_done(self) -> bool:
        return self.pc >= len(self.script)

    def act(self) -> None:
        """One scheduled move."""
        if self.sock is None or self.closed:
            return
        if self.script_done:
            self.drain()
            return
        op = self.script[self.pc]
        kind = op[0]
        if kind == 'send':
            want = op[1] - self.partial
            n = self._send_some(want)
            self.partial += n
            if self.partial >= op[1] or self.sent >= len(self.out) or self.closed or self.shut or self.err:
                self.pc += 1
                self.partial = 0
        elif kind == 'read':
            self._read_some(op[1])
            self.pc += 1
        elif kind == 'idle':
            self.pc += 1
        elif kind == 'shut':
            self.do_shut()
            self.pc += 1
        elif kind == 'close':
            self.do_close()
            self.pc += 1
        elif kind == 'reset':
            self.do_reset()
            self.pc += 1
        elif kind == 'wait_eof':
            self._read_some(1 << 16)
            if self.eof_iter is not None:
                self.pc += 1
        else:
            raise ValueError(kind)

    def drain(self) -> None:
        if self.sock is None or self.closed:
            return
        self._send_some(None)
        if self.read_in_drain:
            for _ in range(64):
                if not self._read_some(1 << 16):
                    break
        if self.sent >= len(self.out):
            if self.finish == 'close':
                self.do_close()
            elif self.finish == 'shut':
                self.do_shut()
            elif self.finish == 'close_on_eof' and self.eof_iter is not None:
                self.do_close()
            elif self.finish == 'close_after_rx' and len(self.inbuf) >= self.expect_rx:
                self.do_close()

    @property
    def wants_more(self) -> bool:
        """True while the peer still has something it could do on its own."""
        if self.sock is None or self.closed:
            return False
        if not self.script_done:
            return True
        if self.sent < len(self.out) and not self.shut and not self.err:
            return True
        if self.sent >= len(self.out) and self.finish in ('close', 'shut') and not (self.closed or self.shut):
            return True
        return False


# ---------------------------------------------------------------------------------------------
# world + driver

class StepQueue:
    """The work_queue handed to the executor.  get() is called once per loop iteration."""

    def __init__(self, world: 'World') -> None:
        self.world = world

    def get(self) -> Any:
        return self.world.step()

    def put(self, _x: Any) -> None:     # pragma: no cover
        raise NotImplementedError

    def empty(self) -> bool:     # pragma: no cover
        return True


class _SelectorFaults:
    """Delegates to the executor's real selector; register()/modify() of a work's descriptor can be made to fail the way
    selectors.EpollSelector fails when epoll_ctl does (the descriptor is dropped from the selector's map, OSError raised)."""

    def __init__(self, real: Any, world: 'World') -> None:
        self._real = real
        self._world = world

    def _fd(self, fileobj: Any) -> int:
        return fileobj if isinstance(fileobj, int) else fileobj.fileno()

    def register(self, fileobj: Any, events: int, data: Any = None) -> Any:
        f = self._world.selector_fault_fn('register', self._fd(fileobj)) if self._world.selector_fault_fn else None
        if f:
            self._world.faults_fired.append(('selector', 'register', self._fd(fileobj), f))
            raise OSError(getattr(errno, f), os.strerror(getattr(errno, f)))
        return self._real.register(fileobj, events, data)

    def modify(self, fileobj: Any, events: int, data: Any = None) -> Any:
        f = self._world.selector_fault_fn('modify', self._fd(fileobj)) if self._world.selector_fault_fn else None
        if f:
            self._world.faults_fired.append(('selector', 'modify', self._fd(fileobj), f))
            try:
                self._real.unregister(fileobj)
            except (KeyError, ValueError):
                pass
            raise OSError(getattr(errno, f), os.strerror(getattr(errno, f)))
        return self._real.modify(fileobj, events, data)

    def __getattr__(self, name: str) -> Any:
        return getattr(self._real, name)


class World:
    def __init__(self, flags: Any, *, tcp: bool = False, sndbuf: Optional[int] = None, max_iters: int = 20000,
                 settle: int = 8, weak_ksocks: bool = False) -> None:
        install()
        if CLOCK.frozen is None:
            CLOCK.frozen = time.time()
        self.weak_ksocks = weak_ksocks
        self.ksock_refs: List[Tuple[str, Any]] = []
        self.explicitly_closed: set = set()
        self.flags = flags
        self.tcp = tcp
        self.sndbuf = sndbuf
        self.max_iters = max_iters
        self.settle = settle
        self.iter = 0
        self.activity = 0
        self.calls = 0
        self.events: List[Any] = []
        self.harness_hang: Optional[str] = None
        self.hung_where: Optional[str] = None
        self.stalls: List[Dict[str, Any]] = []      # blocking-mode socket calls that met a really full / empty kernel buffer
        self.ksocks: List[KStats] = []
        self.peers: Dict[str, Peer] = collections.OrderedDict()
        self.clients: List[Tuple[Peer, Dict[str, Any]]] = []      # not yet opened
        self.accept_q: List[Tuple[socket.socket, Any]] = []
        self.connect_log: List[Dict[str, Any]] = []
        self.connect_plan: Dict[int, str] = {}
        self.origin_factory: Callable[['World', Tuple[str, int], int], Tuple[Peer, Optional[Dict[str, Any]]]] = default_origin_factory
        self.faults_fired: List[Tuple[str, str, int, str]] = []
        self.global_fault_fn: Optional[Callable[[KSock, str], Optional[str]]] = None
        self.schedule: List[int] = []
        self.spos = 0
        self.order: List[str] = []            # scheduling slots: names of peers (existing or future)
        self.quiet = 0
        self.ended_by_script = False
        self.budget_exhausted = False
        self.executor: Any = None
        self.hooks: List[Callable[['World'], None]] = []      # called every iteration before peers move
        self.last_activity_seen = -1
        self.client_plans: Dict[str, Dict[str, Any]] = {}
        self.exceptions: List[Tuple[str, str]] = []
        self.on_iteration: Optional[Callable[['World'], None]] = None
        self.stop_when: Optional[Callable[['World'], bool]] = None
        self.tcp_waited = 0.0
        self.reaper_period: Optional[int] = None      # iterations between idle-reaper runs (None: the shipped 1000)
        self.at_quiescence: List[Callable[['World'], None]] = []
        self.more_expected: Optional[Callable[[], bool]] = None     # tcp only: is the oracle still waiting for bytes?

    # -- sockets
    def pair(self) -> Tuple[socket.socket, socket.socket]:
        if not self.tcp:
            a, b = socket.socketpair()
        else:
            ls = socket.socket(socket.AF_INET, socket.SOCK_STREAM)
            ls.bind(('127.0.0.1', 0))
            ls.listen(1)
            a = socket.socket(socket.AF_INET, socket.SOCK_STREAM)
            a.connect(ls.getsockname())
            b, _ = ls.accept()
            ls.close()
            for s in (a, b):
                s.setsockopt(socket.IPPROTO_TCP, socket.TCP_NODELAY, 1)
        if self.sndbuf:
            for s in (a, b):
                s.setsockopt(socket.SOL_SOCKET, socket.SO_SNDBUF, self.sndbuf)
                if self.tcp:
                    s.setsockopt(socket.SOL_SOCKET, socket.SO_RCVBUF, self.sndbuf)
        return a, b

    def add_client(self, peer: Peer, plan: Optional[Dict[str, Any]] = None, addr: Any = ('127.0.0.1', 50000)) -> Peer:
        self.peers[peer.name] = peer
        self.client_plans[peer.name] = {'plan': plan, 'addr': addr}
        self.order.append(peer.name)
        return peer

    def open_client(self, peer: Peer) -> None:
        a, b = self.pair()
        info = self.client_plans[peer.name]
        ks = KSock(a, self, 'client:' + peer.name, info['plan'])
        peer.attach(self, b)
        self.accept_q.append((ks, info['addr']))
        self.activity += 1

    def on_connect(self, addr: Any, source_address: Any, via: str = 'new_socket_connection', family: Any = None) -> socket.socket:
        idx = len(self.connect_log)
        entry = {'addr': (addr[0], addr[1]), 'source_address': source_address, 'iter': self.iter, 'result': 'ok'}
        if via != 'new_socket_connection':
            entry['via'] = via
            entry['raw_addr'] = tuple(addr)
            entry['family'] = None if family is None else int(family)
        self.connect_log.append(entry)
        self.activity += 1
        kind = self.connect_plan.get(idx)
        if kind:
            entry['result'] = kind
            if kind == 'refused':
                raise ConnectionRefusedError(errno.ECONNREFUSED, 'Connection refused')
            if kind == 'timeout':
                raise socket.timeout('timed out')
            if kind == 'gaierror':
                raise socket.gaierror(socket.EAI_NONAME, 'Name or service not known')
            if kind == 'unreachable':
                raise OSError(errno.EHOSTUNREACH, 'No route to host')
            if kind == 'netunreach':
                raise OSError(errno.ENETUNREACH, 'Network is unreachable')
            raise ValueError(kind)
        peer, plan = self.origin_factory(self, (addr[0], addr[1]), idx)
        a, b = self.pair()
        ks = KSock(a, self, 'upstream:%d' % idx, plan)
        ks.mode = 'timeout'       # new_socket_connection leaves the socket in 10 s timeout mode
        ks.inet_peer = fake_peername(addr, family)      # what getpeername() of the real TCP socket would have returned
        self.peers[peer.name] = peer
        if peer.name not in self.order:
            self.order.append(peer.name)
        peer.attach(self, b)
        entry['peer'] = peer.name
        return ks

    def global_fault(self, ks: KSock, op: str) -> Optional[str]:
        if self.global_fault_fn is not None:
            return self.global_fault_fn(ks, op)
        return None

    def make_event_queue(self) -> Any:
        """With --enable-events the executor is given an event queue, as Proxy.setup() would: a real EventQueue over an in-process
        list-backed queue (what was published is kept in `self.events`)."""
        if not getattr(self.flags, 'enable_events', False):
            return None
        from proxy.core.event import EventQueue
        world = self

        class _ListQueue:
            def put(self, item: Any, *a: Any, **k: Any) -> None:
                world.events.append(item)

            def put_nowait(self, item: Any) -> None:
                world.events.append(item)
        return EventQueue(_ListQueue())     # type: ignore[arg-type]

    # -- selector-level faults (epoll_ctl can fail: ENOMEM, ENOSPC when max_user_watches is exceeded)
    selector_fault_fn: Optional[Callable[[str, int], Optional[str]]] = None

    def _wrap_selector(self) -> None:
        ex = self.executor
        if self.selector_fault_fn is None or ex is None or getattr(ex, 'selector', None) is None or isinstance(ex.selector, _SelectorFaults):
            return
        ex.selector = _SelectorFaults(ex.selector, self)

    # -- the per-iteration hook
    def step(self) -> Any:
        self._wrap_selector()
        self.iter += 1
        if self.on_iteration is not None:
            self.on_iteration(self)
        for h in self.hooks:
            h(self)
        if self.accept_q and self._accept_ready():
            # hand over one connection per iteration (peers still move below next time)
            return self.accept_q.pop(0)
        moved_by_schedule = False
        if self.spos < len(self.schedule):
            sel = self.schedule[self.spos]
            self.spos += 1
            moved_by_schedule = True
            if sel > 0 and self.order:
                name = self.order[(sel - 1) % len(self.order)]
                self._move(self.peers.get(name))
        else:
            for name in list(self.order):
                self._move(self.peers.get(name), drain_phase=True)
        if self.accept_q and self._accept_ready():
            return self.accept_q.pop(0)
        if self.stop_when is not None and self.stop_when(self):
            self.ended_by_script = True
            return False
        if not moved_by_schedule:
            busy = any(p.wants_more for p in self.peers.values()) or self._pending_clients()
            if self.activity == self.last_activity_seen and not busy:
                self.quiet += 1
            else:
                self.quiet = 0
            self.last_activity_seen = self.activity
            if self.quiet >= self.settle and self.at_quiescence:
                # scripted epilogue: run the next step (e.g. "client closes now") and wait for quiescence again
                fn = self.at_quiescence.pop(0)
                fn(self)
                self.quiet = 0
                self.activity += 1
                raise queue.Empty()
            if self.quiet >= self.settle:
                if self.tcp and self.tcp_waited < 1.0 and (self.more_expected is None or self.more_expected()):
                    # loopback TCP is not synchronous (delayed ACKs, window updates): before calling it
                    # quiescent give in-flight segments wall-clock time to land
                    time.sleep(0.02)
                    self.tcp_waited += 0.02
                    raise queue.Empty()
                self.ended_by_script = True
                return False
            if self.quiet == 0:
                self.tcp_waited = 0.0
        if self.iter >= self.max_iters:
            self.budget_exhausted = True
            self.ended_by_script = True
            return False
        raise queue.Empty()

    def _accept_ready(self) -> bool:
        """A listener with TLS enabled performs the handshake while the work is being initialised, i.e. in a blocking call
        on a freshly accepted socket; a client flagged `send_before_accept` therefore gets its first bytes into the socket
        before the connection is handed to the executor (as a real client's would be by the time accept() returns)."""
        ks, _addr = self.accept_q[0]
        name = getattr(ks, 'kname', 'client:')[7:]
        p = self.peers.get(name)
        if p is None or not getattr(p, 'send_before_accept', False):
            return True
        if p.sent == 0 and len(p.out) > 0 and not p.closed:
            p._send_some(None)
        return p.sent > 0 or p.closed or len(p.out) == 0

    def _pending_clients(self) -> bool:
        return any(p.sock is None and (not p.script_done or len(p.out)) for p in self.peers.values() if p.name in self.client_plans)

    def _move(self, p: Optional[Peer], drain_phase: bool = False) -> None:
        if p is None:
            return
        if p.sock is None:
            if p.name in self.client_plans and not p.closed:
                self.open_client(p)
            return
        p.act()

    # -- running
    def run_local(self) -> 'World':
        global CURRENT
        from proxy.core.work.fd.local import LocalFdExecutor
        CURRENT = self
        ex = LocalFdExecutor(iid='1', work_queue=StepQueue(self), flags=self.flags, event_queue=self.make_event_queue())
        self.executor = ex
        if self.reaper_period is not None:
            # the reaper runs when tick * (select timeout + wait_timeout) >= cleanup_inactive_timeout; with the select
            # timeout at 0 that is every cleanup_inactive_timeout / wait_timeout iterations
            ex.cleanup_inactive_timeout = self.reaper_period * ex.wait_timeout
        try:
            with _Watchdog(self):
                ex.run()
        except HarnessHang:
            raise
        except BaseException as e:     # run() itself raising also means the worker is gone
            self.exceptions.insert(0, ('run', '%s: %s' % (type(e).__name__, e)))
            if isinstance(e, Hung):
                self.ended_by_script = False
        finally:
            CURRENT = None
        return self

    def finish_peers(self, rounds: int = 200) -> None:
        """After the loop under test has returned: let every peer read what is already in its kernel buffer."""
        for _ in range(rounds):
            before = self.activity
            self.iter += 1
            for p in self.peers.values():
                if p.sock is not None and not p.closed:
                    p.pc = len(p.script)
                    p.drain()
            if self.activity == before:
                break

    @property
    def worker_died(self) -> bool:
        return not self.ended_by_script

    def teardown(self) -> None:
        CLOCK.frozen = None
        for p in self.peers.values():
            if p.sock is not None:
                try:
                    p.sock.close()
                except OSError:
                    pass
        for _name, ref in self.ksock_refs:
            ks = ref()
            if ks is not None:
                try:
                    socket.socket.close(ks)
                except OSError:
                    pass
        ex = self.executor
        if ex is not None:
            try:
                for w in list(ex.works.values()):
                    try:
                        w.work.connection.close()
                    except Exception:
                        pass
                ex.works.clear()
                if ex._loop is not None and not ex._loop.is_closed():
                    ex._loop.close()
            except Exception:
                pass


def default_origin_factory(world: World, addr: Tuple[str, int], idx: int) -> Tuple[Peer, Optional[Dict[str, Any]]]:
    return Peer('origin%d' % idx, finish=None), None


_FLAG_CACHE: Dict[str, Any] = {}


def make_flags(argv: Optional[List[str]] = None, **opts: Any) -> Any:
    """Flags through the real FlagParser (so plugin load order is the shipped one)."""
    from proxy.common.flag import FlagParser
    install()
    lv = logging.root.manager.disable
    flags = FlagParser.initialize(list(argv or []), **opts)
    logging.disable(logging.CRITICAL)
    return flags


# ---------------------------------------------------------------------------------------------
# threaded mode: the real HttpProtocolHandler.run() (own selector, blocking _flush() in shutdown())
# executed in the harness thread; the handler's selector is replaced by a stepping wrapper.

class HarnessHang(BaseException):
    """The watchdog fired while the innermost frame was harness code: reported as a harness error (exit 2), not a verdict."""


class Hung(BaseException):
    """Raised by the per-run watchdog: the loop under test sat in one blocking call for WALL_LIMIT seconds."""


WALL_LIMIT = float(os.environ.get('VF_CASE_WALL_LIMIT', '60'))


class _Watchdog:
    """A run normally takes milliseconds.  If the (single-threaded) loop under test blocks - e.g. a blocking
    handshake or connect inside the event loop with nobody to answer - the run would never return.  After
    WALL_LIMIT seconds of wall clock without a single harness step the run is aborted and reported as a dead
    worker ('Hung'), because every connection that worker serves is stalled with it."""

    def __init__(self, world: 'World') -> None:
        self.world = world
        self.old: Any = None
        self.last_iter = -1

    def _fire(self, signum: int, frame: Any) -> None:
        import signal
        if self.world.iter != self.last_iter:      # still stepping: not blocked, re-arm
            self.last_iter = self.world.iter
            signal.setitimer(signal.ITIMER_REAL, WALL_LIMIT)
            return
        if frame is not None and '/vf/' in frame.f_code.co_filename:
            # the harness itself is spinning (a peer model, a reference): never the proxy's fault
            self.world.harness_hang = '%s:%d' % (frame.f_code.co_filename, frame.f_lineno)
            raise HarnessHang(self.world.harness_hang)
        where = '?'
        f = frame
        while f is not None:
            fn = f.f_code.co_filename
            if '/proxy/' in fn and '/vf/' not in fn:
                where = '%s:%d' % (fn.split('/proxy/', 1)[1], f.f_lineno)
                break
            f = f.f_back
        self.world.hung_where = where
        raise Hung(where)

    def __enter__(self) -> '_Watchdog':
        import signal
        import threading
        if threading.current_thread() is threading.main_thread():
            self.old = signal.signal(signal.SIGALRM, self._fire)
            signal.setitimer(signal.ITIMER_REAL, WALL_LIMIT)
        return self

    def __exit__(self, *a: Any) -> None:
        import signal
        import threading
        if threading.current_thread() is threading.main_thread():
            signal.setitimer(signal.ITIMER_REAL, 0)
            signal.signal(signal.SIGALRM, self.old or signal.SIG_DFL)
        # the exception raised by the timer may have been swallowed by the event loop's task machinery: what fired is
        # remembered on the world
        if getattr(self.world, 'harness_hang', None) and (not a or a[0] is not HarnessHang):
            raise HarnessHang(self.world.harness_hang)
        if getattr(self.world, 'hung_where', None) and not any(x[1].startswith('Hung') for x in self.world.exceptions):
            self.world.exceptions.insert(0, ('run', 'Hung: %s' % self.world.hung_where))


class StopRun(BaseException):
    """Raised out of the stepping selector to end a threaded run at quiescence / budget."""


class SteppingSelector:
    def __init__(self, real: Any, world: 'World') -> None:
        self.real = real
        self.world = world

    def register(self, *a: Any, **k: Any) -> Any:
        return self.real.register(*a, **k)

    def unregister(self, *a: Any, **k: Any) -> Any:
        return self.real.unregister(*a, **k)

    def modify(self, *a: Any, **k: Any) -> Any:
        return self.real.modify(*a, **k)

    def get_map(self) -> Any:
        return self.real.get_map()

    def get_key(self, f: Any) -> Any:
        return self.real.get_key(f)

    def close(self) -> None:
        self.real.close()

    def select(self, timeout: Any = None) -> Any:
        try:
            r = self.world.step()
        except queue.Empty:
            r = None
        if r is False:
            raise StopRun()
        return self.real.select(0)


def _run_threaded(self: World, client_name: str) -> World:
    """Thread-per-connection mode for ONE client connection (as the acceptor would start it)."""
    global CURRENT
    CURRENT = self
    peer = self.peers[client_name]
    self.open_client(peer)
    if getattr(peer, 'send_before_accept', False):
        peer._send_some(None)
    conn, addr = self.accept_q.pop(0)
    work_klass = self.flags.work_klass
    self.executor = None
    self.run_returned = False
    try:
        work = work_klass(work_klass.create(conn, addr), flags=self.flags, event_queue=self.make_event_queue(), upstream_conn_pool=None)
    except Exception as e:
        # what start_threaded_work() does happens in the acceptor: a work that cannot even be constructed means the accepted
        # connection is dropped (the socket object goes away with the exception)
        self.exceptions.append(('construct', '%s: %s' % (type(e).__name__, e)))
        self.run_returned = True
        self.run_raised = True
        self.threaded_work = None
        try:
            socket.socket.close(conn)
        except OSError:
            pass
        CURRENT = None
        return self
    self.threaded_work = work
    work.selector = SteppingSelector(work.selector, self)
    self.run_returned = False
    try:
        with _Watchdog(self):
            work.run()
        self.run_returned = True
    except StopRun:
        pass
    except HarnessHang:
        raise
    except Hung as e:
        self.exceptions.insert(0, ('run', 'Hung: %s' % (e,)))
    except BaseException as e:
        # run() ended by raising (in a real deployment: the connection's thread dies); the connection is over
        self.exceptions.append(('run', '%s: %s' % (type(e).__name__, e)))
        self.run_returned = True
        self.run_raised = True
    finally:
        CURRENT = None
    return self


World.run_threaded = _run_threaded     # type: ignore[attr-defined]


# ---------------------------------------------------------------------------------------------
# optional: run the REAL proxy.common.utils.new_socket_connection with its `socket` module replaced by a shim,
# so that the literal-vs-name decision, the address family and the address tuple handed to the OS are observed.

_HOSTNAME_OK = __import__('re').compile(r'[A-Za-z0-9._\-\u0080-\U0010ffff]+')


def _os_would_refuse(world: 'World', addr: Any, via: str, family: Any) -> None:
    """Be as strict as the operating system: ports outside 0..65535 raise OverflowError before anything touches the
    network, a host string that is not a syntactically possible name cannot be resolved.  Recorded, then raised."""
    host, port = addr[0], addr[1]
    reason = None
    if not isinstance(port, int) or not 0 <= port <= 65535:
        reason = OverflowError('bind(): port must be 0-65535.')
    elif via == 'socket.create_connection' and not _HOSTNAME_OK.fullmatch(host or ''):
        reason = socket.gaierror(socket.EAI_NONAME, 'Name or service not known')
    if reason is not None:
        world.connect_log.append({'addr': (host, port), 'raw_addr': tuple(addr), 'via': via, 'family': None if family is None else int(family),
                                  'iter': world.iter, 'result': 'os-refused:' + type(reason).__name__, 'source_address': None})
        raise reason


class _PendingSock:
    """What socket.socket(family, ...) returns inside new_socket_connection: connect() swaps in the harness pair."""

    def __init__(self, world: 'World', family: Any) -> None:
        self._world = world
        self._family = family
        self._real: Optional[socket.socket] = None

    def settimeout(self, t: Any) -> None:
        pass

    def connect(self, addr: Any) -> None:
        _os_would_refuse(self._world, addr, 'socket.connect', self._family)
        self._real = self._world.on_connect(addr, None, via='socket.connect', family=self._family)

    def close(self) -> None:
        if self._real is not None:
            self._real.close()

    def __getattr__(self, name: str) -> Any:
        if self._real is None:
            raise AttributeError(name)
        return getattr(self._real, name)


class SocketModuleShim:
    def __init__(self) -> None:
        self._socket = socket

    def __getattr__(self, name: str) -> Any:
        return getattr(self._socket, name)

    def socket(self, family: Any = socket.AF_INET, type: Any = socket.SOCK_STREAM, proto: int = 0, fileno: Any = None) -> Any:
        if CURRENT is None or fileno is not None:
            return self._socket.socket(family, type, proto, fileno)
        return _PendingSock(CURRENT, family)

    def create_connection(self, addr: Any, timeout: Any = None, source_address: Any = None, **kw: Any) -> Any:
        if CURRENT is None:
            raise ConnectionRefusedError(errno.ECONNREFUSED, 'no harness world')
        _os_would_refuse(CURRENT, addr, 'socket.create_connection', None)
        return CURRENT.on_connect(addr, source_address, via='socket.create_connection')


def install_real_connect() -> None:
    """C14: route TcpServerConnection.connect through the real new_socket_connection (observed via the shim)."""
    install()
    import proxy.common.utils as U
    import proxy.core.connection.server as srv
    if not hasattr(U, 'new_socket_connection') or not hasattr(U, 'socket'):
        raise HarnessSeamMissing('proxy.common.utils.new_socket_connection/socket')
    if not isinstance(U.socket, SocketModuleShim):
        U.socket = SocketModuleShim()     # type: ignore[assignment]

    def _real(addr: Any, timeout: float = 10.0, source_address: Any = None) -> Any:
        conn = U.new_socket_connection(addr, timeout, source_address)
        return conn._real if isinstance(conn, _PendingSock) else conn
    srv.new_socket_connection = _real


# ---------------------------------------------------------------------------------------------
# remote mode: the real RemoteFdExecutor (work arrives as a descriptor over a real multiprocessing.Pipe with
# send_handle, exactly as the acceptor dispatches it), stepped from the harness thread.

def _run_remote(self: World) -> World:
    global CURRENT
    import asyncio
    import multiprocessing
    import threading
    from proxy.core.work.delegate import delegate_work_to_pool
    from proxy.core.work.fd.remote import RemoteFdExecutor
    CURRENT = self
    lock = threading.Lock()
    parent, child = multiprocessing.Pipe()
    world = self
    self.remote_sent: List[int] = []

    class Stepped(RemoteFdExecutor):
        async def _run_once(ex) -> bool:     # type: ignore[override]
            try:
                r = world.step()
            except queue.Empty:
                r = None
            if r is False:
                return True
            if isinstance(r, tuple):
                conn, addr = r
                # what Acceptor._work does for a remote executor: the real hand-over function, with the listener configuration
                # of the flags (the framing on the pipe depends on --unix-socket-path at both ends)
                world.remote_sent.append(conn.fileno())

                class _Handle:
                    def fileno(self) -> int:
                        return conn.fileno()

                    def close(self) -> None:
                        socket.socket.close(conn)      # the acceptor's copy; not the proxy-side close the checks watch for
                delegate_work_to_pool(os.getpid(), parent, lock, _Handle(), addr, world.flags.unix_socket_path)     # type: ignore[arg-type]
            return await super()._run_once()

    loop = asyncio.new_event_loop()
    asyncio.set_event_loop(loop)
    ex = Stepped(iid='1', work_queue=child, flags=self.flags, event_queue=self.make_event_queue())
    ex._loop = loop
    self.executor = ex
    if self.reaper_period is not None:
        ex.cleanup_inactive_timeout = self.reaper_period * ex.wait_timeout
    try:
        with _Watchdog(self):
            ex.run()
    except HarnessHang:
        raise
    except BaseException as e:
        self.exceptions.insert(0, ('run', '%s: %s' % (type(e).__name__, e)))
        if isinstance(e, Hung):
            self.ended_by_script = False
    finally:
        CURRENT = None
        try:
            parent.close()
        except OSError:
            pass
        asyncio.set_event_loop(None)
    return self


World.run_remote = _run_remote     # type: ignore[attr-defined]


def run_mode(world: World, mode: str, client_name: str = 'client') -> World:
    if mode == 'local':
        return world.run_local()
    if mode == 'remote':
        return world.run_remote()     # type: ignore[attr-defined]
    if mode == 'threaded':
        world.run_threaded(client_name)     # type: ignore[attr-defined]
        if getattr(world, 'run_returned', False):
            world.finish_peers()
        return world
    raise ValueError(mode)
