"""Reactive peers for harness K: an origin that answers every complete request it reads, a client that
sends a list of requests (keep-alive: next one after the previous response; pipelined: ahead)."""
from typing import Any, Callable, Dict, List, Optional, Tuple

from vf.harness import k as K
from vf.refs import http_ref as H


def tag_response(origin: str, serial: int, req_raw: bytes, extra_body: bytes = b'', close: bool = False) -> bytes:
    line = req_raw.split(b'\r\n', 1)[0]
    body = b'origin=' + origin.encode() + b';serial=%d;line=' % serial + line + b';' + extra_body
    return b'HTTP/1.1 200 OK\r\nContent-Length: %d\r\nX-Origin: %s\r\n%s\r\n' % (
        len(body), origin.encode(), b'Connection: close\r\n' if close else b'') + body


class ReactiveOrigin(K.Peer):
    """Parses its input into complete requests (framing-aware) and answers each one."""

    def __init__(self, name: str, responder: Optional[Callable[['ReactiveOrigin', bytes, int], bytes]] = None,
                 script: Optional[List[List[Any]]] = None, finish: Optional[str] = None) -> None:
        super().__init__(name, out=b'', script=script, finish=finish)
        self.responder = responder or (lambda o, raw, i: tag_response(o.name, i, raw))
        self.requests: List[bytes] = []
        self.consumed = 0
        self.bad: Optional[str] = None

    def on_data(self) -> None:
        while self.bad is None:
            buf = bytes(self.inbuf[self.consumed:])
            if not buf:
                return
            try:
                n = H.message_length(buf)
            except Exception as e:      # not a parsable request: remember, stop answering
                self.bad = '%s: %s' % (type(e).__name__, e)
                return
            if n is None:
                return
            raw = buf[:n]
            self.consumed += n
            self.requests.append(raw)
            self.out += self.responder(self, raw, len(self.requests))

    @property
    def unparsed(self) -> bytes:
        return bytes(self.inbuf[self.consumed:])


class ReactiveClient(K.Peer):
    """requests: list of (raw bytes, cut offsets).  One segment per scheduled move.  In keep-alive mode the next
    request starts only when the response to the previous one is complete (framing-aware)."""

    def __init__(self, name: str, requests: List[Tuple[bytes, List[int]]], pipelined: bool = False,
                 finish: Optional[str] = None, packing: Optional[List[int]] = None) -> None:
        super().__init__(name, out=b'', script=[], finish=finish)
        self.reqs = requests
        self.pipelined = pipelined
        self.segments: List[Tuple[int, bytes]] = []    # (request index, bytes)
        from vf.gens.http import cut
        for i, (raw, cuts) in enumerate(requests):
            for piece in cut(raw, cuts):
                self.segments.append((i, piece))
        if packing:
            # pipelined packing: merge consecutive segments (several requests per segment)
            merged: List[Tuple[int, bytes]] = []
            it = iter(self.segments)
            pi = 0
            cur: Optional[Tuple[int, bytes]] = None
            count = 0
            for seg in self.segments:
                if cur is None:
                    cur, count = seg, 1
                else:
                    cur = (seg[0], cur[1] + seg[1])
                    count += 1
                if count >= packing[pi % len(packing)]:
                    merged.append(cur)
                    cur = None
                    pi += 1
            if cur is not None:
                merged.append(cur)
            self.segments = merged
        self.seg_i = 0
        self.resp_off = 0
        self.responses: List[bytes] = []
        self.all_sent_iter: Optional[int] = None
        self.shut_after_send = False      # half-close as soon as the last request byte is out (and keep reading)

    def _scan_responses(self) -> None:
        while True:
            buf = bytes(self.inbuf[self.resp_off:])
            if not buf:
                return
            try:
                n = H.message_length(buf)
            except Exception:
                return
            if n is None:
                return
            self.responses.append(buf[:n])
            self.resp_off += n

    def on_data(self) -> None:
        self._scan_responses()

    @property
    def script_done(self) -> bool:
        return self.seg_i >= len(self.segments)

    def act(self) -> None:
        if self.sock is None or self.closed:
            return
        for _ in range(16):
            if not self._read_some(1 << 16):
                break
        if self.seg_i < len(self.segments):
            idx, piece = self.segments[self.seg_i]
            first_of_request = self.seg_i == 0 or self.segments[self.seg_i - 1][0] != idx
            if not self.pipelined and first_of_request and len(self.responses) < idx and self.eof_iter is None:
                return      # wait for the previous response
            if self.eof_iter is not None:
                self.seg_i = len(self.segments)
                return
            if self.sent >= len(self.out):
                self.out += piece
            self._send_some(None)
            if self.sent >= len(self.out):
                self.seg_i += 1
                if self.seg_i >= len(self.segments):
                    self.all_sent_iter = self.world.iter if self.world else None
                    if self.shut_after_send:
                        self.do_shut()
            return
        self.drain()

    def act_no_read(self) -> None:
        """Like act(), but never reads (a client that sends its requests and then ignores the answers)."""
        if self.sock is None or self.closed:
            return
        if self.seg_i < len(self.segments):
            idx, piece = self.segments[self.seg_i]
            if self.sent >= len(self.out):
                self.out += piece
            self._send_some(None)
            if self.sent >= len(self.out):
                self.seg_i += 1

    @property
    def wants_more(self) -> bool:
        if self.sock is None or self.closed:
            return False
        if self.seg_i < len(self.segments):
            idx, _ = self.segments[self.seg_i]
            first_of_request = self.seg_i == 0 or self.segments[self.seg_i - 1][0] != idx
            if not self.pipelined and first_of_request and len(self.responses) < idx:
                return False     # blocked on a response: not "own" progress
            return self.eof_iter is None
        return super().wants_more
