"""Shared runner: shards over processes, known-finding matching, evidence, replay files, exit codes.

Exit codes: 0 held (listed findings are printed as KNOWN-FINDING), 1 unlisted violation
(`VIOLATION property=<id> replay=<path>`), 2 harness error.
"""
import os
import sys
import json
import time
import traceback
import collections
import multiprocessing
from typing import Any, Dict, List, Optional

from . import jsonio

VERIF = os.path.dirname(os.path.dirname(os.path.dirname(os.path.abspath(__file__))))
FINDINGS_FILE = os.path.join(VERIF, 'known_findings.json')
# mutation trials (VF_REPO pointing at a scratch tree) must not overwrite the real evidence/replays
_SCRATCH = os.environ.get('VF_REPO', '/repo').rstrip('/') != '/repo'
OUT = os.environ.get('VF_OUT_DIR') or ('/tmp/vf-scratch-out' if _SCRATCH else VERIF)
MAX_SAMPLES = 6
MAX_VIOLATIONS_KEPT = 8


class HarnessError(Exception):
    """Something is wrong with the machinery (not with the code under test)."""


def load_findings(pid: str) -> List[Dict[str, Any]]:
    if not os.path.exists(FINDINGS_FILE):
        return []
    with open(FINDINGS_FILE) as f:
        doc = jsonio.dec(json.load(f))
    return [x for x in doc.get('findings', []) if x.get('property') == pid]


def finding_matches(finding: Dict[str, Any], clause: str, features: Dict[str, Any]) -> bool:
    """A finding lists one matcher, optionally further ones ('also') for other manifestations of the SAME root cause."""
    for m in [finding.get('matcher', {})] + list(finding.get('also', [])):
        if m.get('clause') != clause:
            continue
        if all(features.get(k) == v for k, v in m.get('features', {}).items()):
            return True
    return False


class Acc:
    """Per-shard accounting.  Everything in here is measured, nothing is a constant."""

    def __init__(self, pid: str, findings: Optional[List[Dict[str, Any]]] = None) -> None:
        self.pid = pid
        self.findings = findings if findings is not None else load_findings(pid)
        self.evaluations = 0
        self.nontrivial: set = set()
        self.labels: collections.Counter = collections.Counter()
        self.samples: List[Any] = []
        self.dontcare = 0
        self.excluded: collections.Counter = collections.Counter()
        self._buckets: Dict[Any, Any] = {}
        self.notes: List[str] = []
        self.budget_hit = False
        self.exhaustive_parts: List[str] = []
        self.sizes: Dict[str, int] = {}
        self._sample_every = 1
        self.bulk_keys: Dict[str, int] = {}

    # -- counting -------------------------------------------------------
    def case(self, case: Any, nontrivial: bool, labels: Any = (), key: Any = None) -> None:
        self.evaluations += 1
        for lab in labels:
            self.labels[lab] += 1
        if nontrivial:
            self.nontrivial.add(jsonio.chash(case if key is None else key))
            # keep a thin, spread-out selection of samples
            if len(self.samples) < MAX_SAMPLES and len(self.nontrivial) % self._sample_every == 0:
                self.samples.append(jsonio.brief(case))
                self._sample_every = min(self._sample_every * 7, 5000)

    def count(self, n: int = 1) -> None:
        self.evaluations += n

    def bulk(self, key: Any, evaluations: int, nontrivial: int, sample: Any = None, labels: Any = ()) -> None:
        """Account for a family of cases that are distinct by construction (e.g. all cut sets of one message):
        `key` identifies the family; the family's non-trivial members are counted once, however often the family recurs
        (also across shards: the parent merges by key)."""
        self.evaluations += evaluations
        for lab in labels:
            self.labels[lab] += 1
        h = jsonio.chash(key)
        if nontrivial > self.bulk_keys.get(h, 0):
            self.bulk_keys[h] = nontrivial
            if sample is not None and len(self.samples) < MAX_SAMPLES and len(self.bulk_keys) % self._sample_every == 0:
                self.samples.append(jsonio.brief(sample))
                self._sample_every = min(self._sample_every * 7, 5000)

    def label(self, *labs: str) -> None:
        for lab in labs:
            self.labels[lab] += 1

    def size(self, name: str, v: int) -> None:
        if v > self.sizes.get(name, -1):
            self.sizes[name] = v

    # -- failures -------------------------------------------------------
    def classify(self, clause: str, features: Dict[str, Any]) -> Optional[str]:
        for f in self.findings:
            if finding_matches(f, clause, features):
                return f['id']
        return None

    def fail(self, case: Any, clause: str, features: Dict[str, Any], observed: Any = None,
             expected: Any = None) -> bool:
        """Record a failing case.  Returns True when it is NOT covered by a listed finding
        (the caller should then let the search engine shrink it)."""
        fid = self.classify(clause, features)
        if fid is not None:
            self.excluded[fid] += 1
            return False
        v = {'property': self.pid, 'clause': clause, 'features': features, 'case': case,
             'observed': observed, 'expected': expected}
        # one representative (the smallest case) per root-cause bucket (clause, features)
        bucket = (clause, jsonio.dumps(features))
        size = len(jsonio.dumps(case))
        cur = self._buckets.get(bucket)
        if cur is None or size < cur[0]:
            self._buckets[bucket] = (size, v)
        return True

    @property
    def violations(self) -> List[Dict[str, Any]]:
        return [v for (_, v) in self._buckets.values()]

    def to_dict(self) -> Dict[str, Any]:
        return {
            'evaluations': self.evaluations, 'nontrivial': sorted(self.nontrivial),
            'labels': dict(self.labels), 'samples': self.samples, 'dontcare': self.dontcare,
            'excluded': dict(self.excluded), 'violations': jsonio.enc(self.violations),
            'notes': self.notes, 'budget_hit': self.budget_hit,
            'exhaustive_parts': self.exhaustive_parts, 'sizes': self.sizes, 'bulk_keys': self.bulk_keys,
        }


def _shard_entry(args: Any) -> Dict[str, Any]:
    modname, spec, seed = args
    os.environ.setdefault('PYTHONHASHSEED', '0')
    try:
        import importlib
        mod = importlib.import_module(modname)
        acc = Acc(mod.ID)
        t0 = time.time()
        mod.run_shard(spec, seed, acc)
        d = acc.to_dict()
        d['wall'] = time.time() - t0
        d['spec'] = spec.get('name', str(spec))
        return d
    except BaseException:
        return {'error': traceback.format_exc(), 'spec': str(spec)}


def run_check(mod: Any, tier: str, seed: int, jobs: int = 16) -> int:
    t0 = time.time()
    pid = mod.ID
    findings = load_findings(pid)
    out_lines: List[str] = []
    unlisted: List[Dict[str, Any]] = []

    # 1. pinned reproductions of listed findings
    known_status = []
    for f in findings:
        pinned = f.get('pinned')
        still = None
        if pinned is not None:
            try:
                vs = mod.replay(pinned)
            except Exception:
                print('HARNESS-ERROR replaying pinned finding %s\n%s' % (f['id'], traceback.format_exc()))
                return 2
            still = any(finding_matches(f, v['clause'], v['features']) for v in vs)
            for v in vs:
                if not any(finding_matches(g, v['clause'], v['features']) for g in findings):
                    unlisted.append(v)
        if still or still is None:
            print('KNOWN-FINDING: property=%s %s' % (pid, f['what']))
        else:
            print('NOTE: listed finding %s of %s no longer reproduces on this tree' % (f['id'], pid))
        known_status.append({'id': f['id'], 'reproduces': still})

    # 2. committed regression replays (shrunk cases of repaired defects, seeds)
    regress_dir = os.path.join(VERIF, 'corpus', 'regress', pid)
    n_regress = 0
    if os.path.isdir(regress_dir):
        for fn in sorted(os.listdir(regress_dir)):
            if not fn.endswith('.json'):
                continue
            with open(os.path.join(regress_dir, fn)) as fh:
                doc = jsonio.dec(json.load(fh))
            try:
                vs = mod.replay(doc['case'])
            except Exception:
                print('HARNESS-ERROR replaying %s\n%s' % (fn, traceback.format_exc()))
                return 2
            n_regress += 1
            for v in vs:
                if not any(finding_matches(g, v['clause'], v['features']) for g in findings):
                    v = dict(v)
                    v['from_regress'] = fn
                    unlisted.append(v)

    # 3. generated search, sharded
    os.environ['VF_TIER'] = tier      # read by vf.core.hyp for the default per-shard wall-clock allowance
    specs = mod.shards(tier)
    tasks = [(mod.__name__, spec, seed * 1000 + i) for i, spec in enumerate(specs)]
    ctx = multiprocessing.get_context('fork')
    results: List[Dict[str, Any]] = []
    if tasks:
        with ctx.Pool(min(jobs, len(tasks)), maxtasksperchild=1) as pool:
            for r in pool.imap_unordered(_shard_entry, tasks, chunksize=1):
                results.append(r)
    errors = [r for r in results if 'error' in r]
    if errors:
        for r in errors:
            print('HARNESS-ERROR in shard %s\n%s' % (r['spec'], r['error']))
        return 2

    evaluations = n_regress + len(findings)
    nontrivial: set = set()
    labels: collections.Counter = collections.Counter()
    samples: List[Any] = []
    dontcare = 0
    excluded: collections.Counter = collections.Counter()
    notes: List[str] = []
    exhaustive_parts: List[str] = []
    sizes: Dict[str, int] = {}
    budget_hit = False
    bulk: Dict[str, int] = {}
    for r in sorted(results, key=lambda x: x['spec']):
        for k_, v_ in r.get('bulk_keys', {}).items():
            if v_ > bulk.get(k_, 0):
                bulk[k_] = v_
        evaluations += r['evaluations']
        nontrivial.update(r['nontrivial'])
        labels.update(r['labels'])
        for s in r['samples']:
            if len(samples) < MAX_SAMPLES:
                samples.append(s)
        dontcare += r['dontcare']
        excluded.update(r['excluded'])
        notes.extend(r['notes'])
        exhaustive_parts.extend(r['exhaustive_parts'])
        budget_hit = budget_hit or r['budget_hit']
        for k, v in r['sizes'].items():
            sizes[k] = max(sizes.get(k, 0), v)
        unlisted.extend(jsonio.dec(r['violations']))

    # 4. report
    rc = 0
    seen = set()
    unlisted.sort(key=lambda v: len(jsonio.dumps(v['case'])))
    rep_dir = os.path.join(OUT, 'replays', pid)
    n_viol = 0
    for v in unlisted:
        bucket = (v['clause'], jsonio.dumps(v.get('features', {})))
        if bucket in seen:
            continue
        seen.add(bucket)
        n_viol += 1
        if n_viol > MAX_VIOLATIONS_KEPT:
            continue
        os.makedirs(rep_dir, exist_ok=True)
        path = os.path.join(rep_dir, '%s.json' % jsonio.chash(v))
        with open(path, 'w') as fh:
            fh.write(jsonio.dumps(v, indent=1))
        print('VIOLATION property=%s replay=%s' % (pid, path))
        print('  clause=%s features=%s' % (v['clause'], jsonio.dumps(v.get('features', {}))))
        print('  observed=%s' % (jsonio.dumps(jsonio.brief(v.get('observed')))[:600],))
        print('  expected=%s' % (jsonio.dumps(jsonio.brief(v.get('expected')))[:600],))
        rc = 1

    explanation = getattr(mod, 'EXPLANATION', '')
    cov = {
        'evaluations': evaluations,
        'distinct_nontrivial': len(nontrivial) + sum(bulk.values()),
        'rule': mod.RULE,
        'samples': samples if samples else ['(no non-trivial sample was produced)'],
        'labels': dict(sorted(labels.items())),
        'dont_care': dontcare,
        'excluded_as_listed_finding': dict(excluded),
        'listed_findings': known_status,
        'regression_replays': n_regress,
        'sizes_reached': sizes,
        'budget_hit': budget_hit,
        'shards': len(specs),
        'exhaustive': bool(exhaustive_parts) and getattr(mod, 'ALL_EXHAUSTIVE', False),
        'exhaustive_subspaces': sorted(set(exhaustive_parts)),
        'explanation': explanation,
        'notes': notes[:20],
    }
    ev = {
        'property_id': pid, 'tier': tier, 'seed': seed, 'level': mod.LEVEL,
        'coverage': cov, 'assumptions': getattr(mod, 'ASSUMPTIONS', []),
        'wall_s': round(time.time() - t0, 2), 'violations': n_viol,
    }
    os.makedirs(os.path.join(OUT, 'evidence'), exist_ok=True)
    with open(os.path.join(OUT, 'evidence', '%s.json' % pid), 'w') as fh:
        json.dump(ev, fh, indent=1, sort_keys=True)
        fh.write('\n')
    print('%s tier=%s seed=%d evaluations=%d distinct_nontrivial=%d dont_care=%d excluded=%s violations=%d wall=%.1fs'
          % (pid, tier, seed, evaluations, len(nontrivial) + sum(bulk.values()), dontcare, dict(excluded), n_viol, time.time() - t0))
    return rc


def run_replay(mod: Any, path: str) -> int:
    with open(path) as fh:
        doc = jsonio.dec(json.load(fh))
    case = doc['case'] if isinstance(doc, dict) and 'case' in doc else doc
    vs = mod.replay(case)
    findings = load_findings(mod.ID)
    rc = 0
    for v in vs:
        listed = any(finding_matches(g, v['clause'], v['features']) for g in findings)
        print('%s clause=%s features=%s' % ('KNOWN-FINDING' if listed else 'VIOLATION property=%s replay=%s' % (mod.ID, path),
                                             v['clause'], jsonio.dumps(v['features'])))
        print('  observed=%s' % (jsonio.dumps(jsonio.brief(v.get('observed')))[:1500],))
        print('  expected=%s' % (jsonio.dumps(jsonio.brief(v.get('expected')))[:1500],))
        if not listed:
            rc = 1
    if not vs:
        print('replay: property held on this case')
    return rc
