"""Hypothesis driver used inside a shard.

`drive(strategy, check, acc, ...)`: `check(case)` evaluates one case and returns a list of
raw violations `(clause, features, observed, expected)`.  Violations covered by a listed
finding are counted and the search continues; the first unlisted one is shrunk by Hypothesis
and recorded (one per drive call; callers shard by sub-domain so several root causes can
surface in one run).
"""
import time
from typing import Any, Callable, List, Optional

import hypothesis
from hypothesis import HealthCheck, Phase, given, settings

from .runner import Acc


class _Fail(Exception):
    pass


def drive(strategy: Any, check: Callable[[Any], List[Any]], acc: Acc, *, max_examples: int,
          seed: int, budget_s: Optional[float] = None, shrink: bool = True,
          to_case: Callable[[Any], Any] = lambda c: c) -> None:
    t_end = None if budget_s is None else time.time() + budget_s
    state = {'fail': None, 'shrinking': False}
    phases = [Phase.generate, Phase.target] + ([Phase.shrink] if shrink else [])

    @hypothesis.seed(seed)
    @settings(max_examples=max_examples, database=None, deadline=None, derandomize=False,
              report_multiple_bugs=False, suppress_health_check=list(HealthCheck),
              phases=phases, print_blob=False, verbosity=hypothesis.Verbosity.quiet)
    @given(strategy)
    def t(case: Any) -> None:
        if t_end is not None and not state['shrinking'] and time.time() > t_end:
            acc.budget_hit = True
            return
        vs = check(case)
        bad = None
        for v in vs:
            clause, features, observed, expected = v
            if acc.classify(clause, features) is None:
                bad = v
                break
            acc.excluded[acc.classify(clause, features)] += 1
        if bad is not None:
            state['fail'] = (to_case(case), bad)
            state['shrinking'] = True
            raise _Fail()

    try:
        t()
    except _Fail:
        case, (clause, features, observed, expected) = state['fail']
        acc.fail(case, clause, features, observed, expected)
    except hypothesis.errors.Flaky as e:     # a nondeterministic harness is a harness error
        if state['fail'] is not None:
            case, (clause, features, observed, expected) = state['fail']
            features = dict(features)
            acc.notes.append('flaky under shrinking: %r' % (e,))
            acc.fail(case, clause, features, observed, expected)
        else:
            raise
