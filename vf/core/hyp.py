"""Hypothesis driver used inside a shard.

`drive(strategy, check, acc, ...)`: `check(case)` evaluates one case and returns a list of raw violations
`(clause, features, observed, expected)`.

Hypothesis stops at the first failure, which would hide every root cause behind the shallowest one.  So:
  * violations covered by a listed finding (known_findings.json) are counted and the search continues;
  * an unlisted violation is shrunk and recorded, its bucket (clause, features) is then *ignored* and the search
    is restarted with the remaining example budget (up to `max_rounds` buckets per drive call).
"""
import os
import time
from typing import Any, Callable, List, Optional, Set, Tuple

import hypothesis
from hypothesis import HealthCheck, Phase, given, settings

from . import jsonio
from .runner import Acc


class _Fail(Exception):
    pass


def drive(strategy: Any, check: Callable[[Any], List[Any]], acc: Acc, *, max_examples: int,
          seed: int, budget_s: Optional[float] = None, shrink: bool = True,
          to_case: Callable[[Any], Any] = lambda c: c, max_rounds: int = 6) -> None:
    if budget_s is None:
        # a shard normally takes seconds to minutes; against a change that makes the proxy spin, every case runs to its iteration
        # budget and a shard could take hours: stop generating after a generous wall-clock allowance (recorded as budget_hit in
        # the evidence; what was not explored is inconclusive, never a violation)
        budget_s = float(os.environ.get('VF_SHARD_BUDGET_S') or (1200 if os.environ.get('VF_TIER', 'quick') == 'quick' else 4 * 3600))
    t_end = time.time() + budget_s
    ignore: Set[Tuple[str, str]] = set()
    remaining = max_examples
    for rnd in range(max_rounds):
        used, found = _round(strategy, check, acc, remaining, seed + 7919 * rnd, t_end, shrink, to_case, ignore)
        if found is None:
            break
        ignore.add(found)
        remaining = max(remaining - used, max_examples // 4, 20)


def _bucket(clause: str, features: Any) -> Tuple[str, str]:
    return (clause, jsonio.dumps(features))


def _round(strategy: Any, check: Callable[[Any], List[Any]], acc: Acc, max_examples: int, seed: int,
           t_end: Optional[float], shrink: bool, to_case: Callable[[Any], Any],
           ignore: Set[Tuple[str, str]]) -> Tuple[int, Optional[Tuple[str, str]]]:
    state = {'fail': None, 'shrinking': False, 'n': 0}
    phases = [Phase.generate, Phase.target] + ([Phase.shrink] if shrink else [])

    @hypothesis.seed(seed)
    @settings(max_examples=max_examples, database=None, deadline=None, derandomize=False,
              report_multiple_bugs=False, suppress_health_check=list(HealthCheck),
              phases=phases, print_blob=False, verbosity=hypothesis.Verbosity.quiet)
    @given(strategy)
    def t(case: Any) -> None:
        if t_end is not None and not state['shrinking'] and time.time() > t_end:
            acc.budget_hit = True
            return
        if not state['shrinking']:
            state['n'] += 1
        vs = check(case)
        bad = None
        for v in vs:
            clause, features, observed, expected = v
            fid = acc.classify(clause, features)
            if fid is not None:
                acc.excluded[fid] += 1
                continue
            if _bucket(clause, features) in ignore:
                acc.labels['repeat-of-violation-already-recorded-this-run'] += 1
                continue
            bad = v
            break
        if bad is not None:
            state['fail'] = (to_case(case), bad)
            state['shrinking'] = True
            raise _Fail()

    try:
        t()
    except _Fail:
        pass
    except hypothesis.errors.Flaky as e:     # a nondeterministic run: keep what was seen, flag it
        acc.notes.append('flaky under shrinking: %r' % (e,))
        if state['fail'] is None:
            raise
    if state['fail'] is None:
        return state['n'], None
    case, (clause, features, observed, expected) = state['fail']
    acc.fail(case, clause, features, observed, expected)
    return state['n'], _bucket(clause, features)
