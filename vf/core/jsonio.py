"""JSON encoding of cases (bytes-safe) and canonical hashing."""
import json
import hashlib
from typing import Any


def enc(o: Any) -> Any:
    if isinstance(o, (bytes, bytearray, memoryview)):
        b = bytes(o)
        try:
            s = b.decode('ascii')
            if s.isprintable() or all(c.isprintable() or c in '\r\n\t' for c in s):
                return {'__b': s}
        except UnicodeDecodeError:
            pass
        return {'__x': b.hex()}
    if isinstance(o, dict):
        return {str(k): enc(v) for k, v in o.items()}
    if isinstance(o, (list, tuple)):
        return [enc(v) for v in o]
    if isinstance(o, (set, frozenset)):
        return sorted(enc(v) for v in o)
    if isinstance(o, (str, int, float, bool)) or o is None:
        return o
    return repr(o)


def dec(o: Any) -> Any:
    if isinstance(o, dict):
        if set(o.keys()) == {'__b'}:
            return o['__b'].encode('ascii')
        if set(o.keys()) == {'__x'}:
            return bytes.fromhex(o['__x'])
        return {k: dec(v) for k, v in o.items()}
    if isinstance(o, list):
        return [dec(v) for v in o]
    return o


def dumps(o: Any, **kw: Any) -> str:
    return json.dumps(enc(o), sort_keys=True, **kw)


def loads(s: str) -> Any:
    return dec(json.loads(s))


def chash(o: Any) -> str:
    return hashlib.sha1(dumps(o).encode()).hexdigest()[:16]


def brief(o: Any, limit: int = 600) -> Any:
    """A compact rendering of a case for evidence samples: long byte strings are abbreviated."""
    if isinstance(o, (bytes, bytearray, memoryview)):
        b = bytes(o)
        if len(b) > 96:
            return {'len': len(b), 'head': enc(b[:48]), 'tail': enc(b[-16:])}
        return enc(b)
    if isinstance(o, dict):
        return {str(k): brief(v, limit) for k, v in o.items()}
    if isinstance(o, (list, tuple)):
        if len(o) > 24:
            return {'n': len(o), 'first': [brief(v, limit) for v in o[:12]], 'last': [brief(v, limit) for v in o[-4:]]}
        return [brief(v, limit) for v in o]
    return enc(o)
