"""python -m vf.cli <Cxx> --tier quick|thorough [--replay FILE]"""
import os
import sys
import argparse
import importlib
import tempfile
import traceback


def main() -> int:
    ap = argparse.ArgumentParser()
    ap.add_argument('prop')
    ap.add_argument('--tier', default=os.environ.get('VERIF_TIER', 'quick'), choices=['quick', 'thorough'])
    ap.add_argument('--replay')
    ap.add_argument('--jobs', type=int, default=int(os.environ.get('VF_JOBS', '16')))
    a = ap.parse_args()
    seed = int(os.environ.get('VERIF_SEED', '1') or '1')
    os.environ['PYTHONHASHSEED'] = os.environ.get('PYTHONHASHSEED', '0')
    # ~/.proxy (cert dir, cache, ...) must not touch the sandbox nor leak between runs
    home = tempfile.mkdtemp(prefix='vfhome-')
    os.environ['HOME'] = home
    repo = os.environ.get('VF_REPO', '/repo')
    sys.path.insert(0, repo)
    try:
        import proxy
        if not os.path.abspath(proxy.__file__).startswith(os.path.abspath(repo) + os.sep):
            print('HARNESS-ERROR: proxy imported from %s, expected under %s' % (proxy.__file__, repo))
            return 2
        from vf.core import runner
        mod = importlib.import_module('vf.props.%s' % a.prop.lower())
        if a.replay:
            return runner.run_replay(mod, a.replay)
        return runner.run_check(mod, a.tier, seed, jobs=a.jobs)
    except Exception:
        print('HARNESS-ERROR\n' + traceback.format_exc())
        return 2
    finally:
        import shutil
        shutil.rmtree(home, ignore_errors=True)


if __name__ == '__main__':
    sys.exit(main())
