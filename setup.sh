#!/bin/sh
# Offline, idempotent: third-party packages the checks need that /venv may lack go to /verif/.deps
set -e
cd "$(dirname "$0")"
WH=/opt/veriftools/wheels
PY=/venv/bin/python
mkdir -p .deps evidence replays
need=""
for m in hypothesis jsonschema atheris h11; do
  if ! PYTHONPATH=/verif/.deps $PY -c "import $m" >/dev/null 2>&1; then need="$need $m"; fi
done
if [ -n "$need" ]; then
  $PY -m pip install --quiet --no-index --find-links $WH --target /verif/.deps $need || {
    # atheris is optional (thorough tiers fall back to hypothesis-only); the others are required
    for m in $need; do
      [ "$m" = atheris ] && continue
      $PY -m pip install --quiet --no-index --find-links $WH --target /verif/.deps $m
    done
  }
fi
PYTHONPATH=/verif/.deps $PY -c "import hypothesis, h11; print('deps ok', hypothesis.__version__, h11.__version__)"
command -v openssl >/dev/null || echo "warning: openssl missing (C11 will exit 2)"
