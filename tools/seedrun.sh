#!/bin/bash
# quick: apply a seed patch to a scratch worktree and run checks   usage: sc1.sh <patchdir> <checks...>
SRC=$1; shift
WT=$(mktemp -d /tmp/sq-XXXX); rmdir $WT
git -C /repo worktree add -q --detach $WT HEAD || exit 3
trap "git -C /repo worktree remove --force $WT >/dev/null 2>&1; rm -rf $WT.out" EXIT
git -C $WT apply $SRC/patch.diff || exit 3
for c in "$@"; do VF_OUT_DIR=$WT.out VF_REPO=$WT /verif/check $c --tier ${TIER:-quick} 2>&1 | grep -E "^VIOLATION|^  clause|^C[0-9]+ tier|HARNESS|Traceback" | head -${LINES_MAX:-8} | cut -c1-500; done
