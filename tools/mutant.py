#!/venv/bin/python
"""Sensitivity trial: apply a textual mutation to a scratch worktree of /repo and run checks against it.
usage: tools/mutant.py <relpath> <old> <new> <Cxx> [<Cxx>...]     (old/new are python string literals without quotes; \\n allowed)
Exit 0 if at least one check reported a VIOLATION (mutant killed)."""
import os, sys, subprocess, tempfile, shutil
rel, old, new, checks = sys.argv[1], sys.argv[2].encode().decode('unicode_escape'), sys.argv[3].encode().decode('unicode_escape'), sys.argv[4:]
wt = tempfile.mkdtemp(prefix='vf-mut-')
os.rmdir(wt)
subprocess.check_call(['git', '-C', '/repo', 'worktree', 'add', '-q', '--detach', wt, 'HEAD'])
killed = False
try:
    p = os.path.join(wt, rel)
    s = open(p).read()
    if old not in s:
        print('MUTATION TARGET NOT FOUND'); sys.exit(3)
    open(p, 'w').write(s.replace(old, new, 1))
    for c in checks:
        env = dict(os.environ, VF_REPO=wt)
        r = subprocess.run(['/verif/check', c, '--tier', 'quick'], env=env, capture_output=True, text=True)
        v = [l for l in r.stdout.splitlines() if l.startswith('VIOLATION') or l.startswith('  clause')]
        print('%s exit=%d %s' % (c, r.returncode, ' | '.join(v[:4])[:400]))
        if r.returncode == 2:
            print(r.stdout[-1500:])
        killed = killed or r.returncode == 1
finally:
    subprocess.call(['git', '-C', '/repo', 'worktree', 'remove', '--force', wt])
    shutil.rmtree('/tmp/vf-scratch-out', ignore_errors=True)
print('KILLED' if killed else 'SURVIVED')
sys.exit(0 if killed else 1)
