#!/bin/bash
# tools/seedcheck.sh <Cxx> <dir-with patch.diff+demo.py> [checks...]: confirm an independently seeded change and run checks against it
set -u
ID=$1; SRC=$2; shift 2; CHECKS=${*:-$ID}
WT=$(mktemp -d /tmp/sv-$ID-XXXX); rmdir $WT
git -C /repo worktree add -q --detach $WT HEAD || exit 3
trap 'git -C /repo worktree remove --force $WT >/dev/null 2>&1; rm -rf $WT.out' EXIT
echo "== demo on pristine tree"; (cd $WT && timeout 300 env PYTHONPATH=$WT /venv/bin/python $SRC/demo.py $WT >/tmp/sv-$ID-pristine.log 2>&1); echo "exit=$?"
git -C $WT apply $SRC/patch.diff || { echo "PATCH DOES NOT APPLY"; exit 3; }
echo "== demo with the change"; (cd $WT && timeout 300 env PYTHONPATH=$WT /venv/bin/python $SRC/demo.py $WT >/tmp/sv-$ID-patched.log 2>&1); echo "exit=$?"
echo "== existing tests with the change"; (cd $WT && PYTHONPATH=$WT /venv/bin/python -m pytest -q -p no:cacheprovider -x --deselect tests/http/proxy/test_http2.py::TestHttp2WithProxy::test_http2_via_proxy --deselect tests/http/test_client.py::TestClient::test_client --deselect tests/http/test_client.py::TestClient::test_http tests/common tests/core tests/http tests/plugin tests/socks tests/test_set_open_file_limit.py 2>&1 | tail -2)
for c in $CHECKS; do
  echo "== check $c against the change"
  VF_OUT_DIR=$WT.out VF_REPO=$WT timeout 1500 /verif/check $c --tier quick 2>&1 | grep -E "^VIOLATION|^  clause|^C[0-9]+ tier|HARNESS" | head -8
done
